package c14sim

import (
	"fmt"
	"reflect"
	"sort"
	"strings"
)

// Dump renders any value canonically (pointers followed, no addresses), so that
// equal results have equal dumps in every process. It is generic over the AST,
// so it survives changes to node types.
func Dump(v any) string {
	var sb strings.Builder
	dump(&sb, reflect.ValueOf(v), 0)
	return sb.String()
}

func dump(sb *strings.Builder, v reflect.Value, depth int) {
	if depth > 200 {
		sb.WriteString("<too deep>")
		return
	}
	if !v.IsValid() {
		sb.WriteString("nil")
		return
	}
	switch v.Kind() {
	case reflect.Ptr:
		if v.IsNil() {
			sb.WriteString("nil")
			return
		}
		sb.WriteString("&")
		dump(sb, v.Elem(), depth+1)
	case reflect.Interface:
		if v.IsNil() {
			sb.WriteString("nil")
			return
		}
		dump(sb, v.Elem(), depth+1)
	case reflect.Struct:
		sb.WriteString(v.Type().String())
		sb.WriteString("{")
		for i := 0; i < v.NumField(); i++ {
			if i > 0 {
				sb.WriteString(" ")
			}
			sb.WriteString(v.Type().Field(i).Name)
			sb.WriteString(":")
			dump(sb, v.Field(i), depth+1)
		}
		sb.WriteString("}")
	case reflect.Slice, reflect.Array:
		if v.Kind() == reflect.Slice && v.IsNil() {
			sb.WriteString("[]")
			return
		}
		sb.WriteString("[")
		for i := 0; i < v.Len(); i++ {
			if i > 0 {
				sb.WriteString(" ")
			}
			dump(sb, v.Index(i), depth+1)
		}
		sb.WriteString("]")
	case reflect.Map:
		keys := v.MapKeys()
		strs := make([]string, len(keys))
		for i, k := range keys {
			var kb strings.Builder
			dump(&kb, k, depth+1)
			var vb strings.Builder
			dump(&vb, v.MapIndex(k), depth+1)
			strs[i] = kb.String() + ":" + vb.String()
		}
		sort.Strings(strs)
		sb.WriteString("map[" + strings.Join(strs, " ") + "]")
	case reflect.String:
		fmt.Fprintf(sb, "%q", v.String())
	case reflect.Bool:
		fmt.Fprintf(sb, "%v", v.Bool())
	case reflect.Int, reflect.Int8, reflect.Int16, reflect.Int32, reflect.Int64:
		fmt.Fprintf(sb, "%d", v.Int())
	case reflect.Uint, reflect.Uint8, reflect.Uint16, reflect.Uint32, reflect.Uint64, reflect.Uintptr:
		fmt.Fprintf(sb, "%d", v.Uint())
	case reflect.Float32, reflect.Float64:
		fmt.Fprintf(sb, "%g", v.Float())
	case reflect.Func:
		if v.IsNil() {
			sb.WriteString("func(nil)")
		} else {
			sb.WriteString("func")
		}
	default:
		fmt.Fprintf(sb, "<%s>", v.Kind())
	}
}
