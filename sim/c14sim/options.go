package c14sim

import (
	"encoding/json"
	"reflect"
	"sort"

	"github.com/runreveal/pql"
	"github.com/runreveal/pql/zzverif/prng"
)

// The property quantifies over "the source text and the contents of the parameter map". A changed tree
// may give CompileOptions further fields; a call that sets one is still a call whose result may depend
// only on what it was given, and a call that does not set it must not be influenced by a caller that
// does. The harness therefore discovers, by reflection, every exported field of CompileOptions other
// than Parameters whose type it can fill with generated values, and adds keys that set them. The
// reference for such a key is, as for every key, its lone first call in a fresh process. On a tree
// whose CompileOptions has only Parameters this file contributes nothing.

// OptionField is one discovered field.
type OptionField struct {
	Name string
	Type string
}

// OptionFields lists the fillable exported fields of pql.CompileOptions other than Parameters, and
// the exported fields it had to leave at their zero value.
func OptionFields() (fillable []OptionField, skipped []OptionField) {
	t := reflect.TypeOf(pql.CompileOptions{})
	for i := 0; i < t.NumField(); i++ {
		f := t.Field(i)
		if !f.IsExported() || f.Name == "Parameters" {
			continue
		}
		of := OptionField{Name: f.Name, Type: f.Type.String()}
		if canFill(f.Type, 0) {
			fillable = append(fillable, of)
		} else {
			skipped = append(skipped, of)
		}
	}
	return
}

func canFill(t reflect.Type, depth int) bool {
	if depth > 2 {
		return false
	}
	switch t.Kind() {
	case reflect.String, reflect.Bool,
		reflect.Int, reflect.Int8, reflect.Int16, reflect.Int32, reflect.Int64,
		reflect.Uint, reflect.Uint8, reflect.Uint16, reflect.Uint32, reflect.Uint64:
		return true
	case reflect.Map:
		return t.Key().Kind() == reflect.String && canFill(t.Elem(), depth+1)
	case reflect.Slice, reflect.Pointer:
		return canFill(t.Elem(), depth+1)
	case reflect.Struct:
		for i := 0; i < t.NumField(); i++ {
			if !t.Field(i).IsExported() {
				return false // cannot be rebuilt from its JSON form
			}
			if !canFill(t.Field(i).Type, depth+1) {
				return false
			}
		}
		return true
	}
	return false
}

// names a generated option value may mention: functions the workload calls that the library does not
// know, functions it does know, columns, tables, parameter-like names, plain words.
var optNamesA = []string{"foo", "bar", "f", "abs", "lower", "upper", "nvl", "len", "x", "a", "n", "s", "k", "State", "T", "U", "tolower", "count", "lim", "true"}
var optNamesB = []string{"tolower", "toupper", "strcat", "isnull", "isnotnull", "not", "iff", "iif", "now", "count", "countif", "sum", "strlen", "a", "b", "x", "1", "'v'", "$1", "U", "other_table", "nope", "clickhouse", ""}

// a string option may be PQL text (a prelude of lets, a default table, a default filter)
var optSnippets = []string{"let threshold = 5;", "let t = x;", "let a1 = 1; let b1 = a1 + n;", "let s = 'v'", "T", "U | where a > 1", "a == 1", "x", ""}

func fill(r *prng.Rand, t reflect.Type, second bool) reflect.Value {
	v := reflect.New(t).Elem()
	switch t.Kind() {
	case reflect.String:
		if !second && r.Chance(1, 2) {
			v.SetString(optSnippets[r.Intn(len(optSnippets))])
		} else if second {
			v.SetString(optNamesB[r.Intn(len(optNamesB))])
		} else {
			v.SetString(optNamesA[r.Intn(len(optNamesA))])
		}
	case reflect.Bool:
		v.SetBool(r.Chance(2, 3))
	case reflect.Int, reflect.Int8, reflect.Int16, reflect.Int32, reflect.Int64:
		v.SetInt(int64([]int{0, 1, 2, 10, -1, 100}[r.Intn(6)]))
	case reflect.Uint, reflect.Uint8, reflect.Uint16, reflect.Uint32, reflect.Uint64:
		v.SetUint(uint64([]int{0, 1, 2, 10, 100}[r.Intn(5)]))
	case reflect.Map:
		n := r.Range(1, 3)
		v.Set(reflect.MakeMapWithSize(t, n))
		for i := 0; i < n; i++ {
			k := reflect.New(t.Key()).Elem()
			k.SetString(optNamesA[r.Intn(len(optNamesA))])
			v.SetMapIndex(k, fill(r, t.Elem(), true))
		}
	case reflect.Slice:
		n := r.Range(1, 3)
		v.Set(reflect.MakeSlice(t, n, n))
		for i := 0; i < n; i++ {
			v.Index(i).Set(fill(r, t.Elem(), second))
		}
	case reflect.Pointer:
		p := reflect.New(t.Elem())
		p.Elem().Set(fill(r, t.Elem(), second))
		v.Set(p)
	case reflect.Struct:
		for i := 0; i < t.NumField(); i++ {
			v.Field(i).Set(fill(r, t.Field(i).Type, second))
		}
	}
	return v
}

// GenExtra draws values for a non-empty subset of the fillable option fields, as (field, JSON) pairs
// sorted by field name. It returns nil on a tree without such fields.
func GenExtra(r *prng.Rand) [][2]string {
	fields, _ := OptionFields()
	if len(fields) == 0 {
		return nil
	}
	t := reflect.TypeOf(pql.CompileOptions{})
	var out [][2]string
	must := r.Intn(len(fields))
	for i, of := range fields {
		if i != must && !r.Chance(1, 2) {
			continue
		}
		sf, _ := t.FieldByName(of.Name)
		b, err := json.Marshal(fill(r, sf.Type, false).Interface())
		if err != nil {
			continue
		}
		out = append(out, [2]string{of.Name, string(b)})
	}
	sort.Slice(out, func(a, b int) bool { return out[a][0] < out[b][0] })
	return out
}

// applyExtra sets the key's extra option fields on opts (fresh values for every call) and returns a
// function rendering those fields, for the "caller's options untouched" oracle.
func applyExtra(opts *pql.CompileOptions, extra [][2]string) func() string {
	if opts == nil || len(extra) == 0 {
		return nil
	}
	v := reflect.ValueOf(opts).Elem()
	var set []reflect.Value
	var names []string
	for _, kv := range extra {
		f := v.FieldByName(kv[0])
		if !f.IsValid() || !f.CanSet() {
			continue // a replay file from a tree with other fields
		}
		if err := json.Unmarshal([]byte(kv[1]), f.Addr().Interface()); err != nil {
			continue
		}
		set = append(set, f)
		names = append(names, kv[0])
	}
	return func() string {
		s := ""
		for i, f := range set {
			s += names[i] + "=" + Dump(f.Interface()) + ";"
		}
		return s
	}
}
