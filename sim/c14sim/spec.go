package c14sim

import (
	"github.com/runreveal/pql/zzverif/prng"
)

// SwitchEv mirrors zzsimrt.Switch (kept separate so that the driver and the
// reference process need not link the simulation runtime).
type SwitchEv struct {
	Task  int    `json:"task"`
	Kind  int    `json:"kind"`
	Yield uint64 `json:"yield"`
	Site  uint32 `json:"site"`
	Next  int    `json:"next"`
	// SiteName is informational.
	SiteName string `json:"site_name,omitempty"`
}

// CallSpec is one API call of a task.
type CallSpec struct {
	Key  int    `json:"key"`  // index into the pool
	Form string `json:"form"` // option representation
	// Shared names the shared map object to use for form "shared" (objects are per run).
	Shared int `json:"shared,omitempty"`
}

// TaskSpec is one simulated caller.
type TaskSpec struct {
	Calls []CallSpec `json:"calls"`
}

// RunSpec is one simulated run: tasks, their calls and the scheduling policy.
type RunSpec struct {
	Index    int        `json:"index"`
	Strategy string     `json:"strategy"` // sequential | uniform | pct | stall | dense-hot | sweep | explicit
	Seed     uint64     `json:"seed"`
	Tasks    []TaskSpec `json:"tasks"`
	PHot     uint32     `json:"p_hot,omitempty"`
	ColdMean uint32     `json:"cold_mean,omitempty"`
	StickPct int        `json:"stick_pct,omitempty"`
	Prio     []int      `json:"prio,omitempty"`
	// PreemptAt[task] = yield counts at which the task is preempted (PCT change points, stall point, sweep point).
	PreemptAt [][]uint64 `json:"preempt_at,omitempty"`
	Victim    int        `json:"victim,omitempty"`
	// Explicit, when non-nil, replaces the policy by the literal switch list.
	Explicit []SwitchEv `json:"explicit,omitempty"`
	Repeat   int        `json:"repeat,omitempty"` // execute the run this many times (map-order defects, DESIGN.md §3.3)
	// ClockJumps: simulated time passes between calls (jumps of 1 ms .. 1 h).
	ClockJumps bool `json:"clock_jumps,omitempty"`
}

// Strategies and their weights.
var strategyNames = []string{"sequential", "uniform", "pct", "stall", "dense-hot"}
var strategyWeights = []int{2, 5, 3, 3, 2}

// GenRunSpec derives run number idx of a process from the process seed.
func GenRunSpec(procSeed uint64, idx int, pool []*Key, eligible []int) RunSpec {
	r := prng.Sub(procSeed, "c14-run", uint64(idx))
	spec := RunSpec{Index: idx, Seed: r.Uint64()}
	spec.Strategy = strategyNames[r.Pick(strategyWeights)]
	nt := r.Range(2, 5)
	if r.Chance(1, 8) {
		nt = r.Range(6, 8) // many callers: queues behind limits of 2..4 get several waiters
	}
	// a small working set of keys so that the same key is observed in several tasks
	ws := make([]int, r.Range(1, 4))
	for i := range ws {
		ws[i] = eligible[r.Intn(len(eligible))]
	}
	// run 0 of a process races into first use: prefer compile keys with function calls
	nShared := 0
	sharedFor := map[string]int{}
	for t := 0; t < nt; t++ {
		var ts TaskSpec
		// some callers do everything through their one options value
		style := []string{"", "", "", "", "", "", "reused", "refilled"}[r.Intn(8)]
		nc := r.Range(1, 4)
		for c := 0; c < nc; c++ {
			var ki int
			if r.Chance(3, 4) {
				ki = ws[r.Intn(len(ws))]
			} else {
				ki = eligible[r.Intn(len(eligible))]
			}
			k := pool[ki]
			forms := k.OptForms()
			cs := CallSpec{Key: ki, Form: forms[r.Intn(len(forms))]}
			if k.API == "compile" && r.Chance(1, 3) {
				cs.Form = []string{"shared", "sharedopts"}[r.Intn(2)]
			}
			if k.API == "compile" && style != "" {
				cs.Form = style
			}
			if IsSharedForm(cs.Form) {
				// one shared object per distinct parameter content per run
				sig := SharedSig(k, cs.Form)
				id, ok := sharedFor[sig]
				if !ok {
					nShared++
					id = nShared
					sharedFor[sig] = id
				}
				cs.Shared = id
			}
			ts.Calls = append(ts.Calls, cs)
		}
		spec.Tasks = append(spec.Tasks, ts)
	}
	spec.StickPct = []int{0, 50, 80, 95}[r.Intn(4)]
	spec.ClockJumps = r.Chance(1, 2)
	switch spec.Strategy {
	case "sequential":
		spec.StickPct = []int{0, 50, 100}[r.Intn(3)]
	case "uniform":
		spec.PHot = []uint32{1 << 32 / 200, 1 << 32 / 50, 1 << 32 / 10, 1 << 32 / 3}[r.Intn(4)]
		spec.ColdMean = []uint32{0, 2000, 300, 50}[r.Intn(4)]
	case "pct":
		spec.Prio = make([]int, nt)
		perm := make([]int, nt)
		for i := range perm {
			perm[i] = i
		}
		r.Shuffle(nt, func(i, j int) { perm[i], perm[j] = perm[j], perm[i] })
		for i, p := range perm {
			spec.Prio[i] = p + 1
		}
		spec.PreemptAt = make([][]uint64, nt)
		d := r.Range(1, 4)
		for i := 0; i < d; i++ {
			t := r.Intn(nt)
			spec.PreemptAt[t] = append(spec.PreemptAt[t], uint64(r.Range(1, []int{60, 400, 3000, 12000}[r.Intn(4)])))
		}
		for t := range spec.PreemptAt {
			sortU64(spec.PreemptAt[t])
		}
	case "stall":
		spec.Victim = r.Intn(nt)
		spec.PreemptAt = make([][]uint64, nt)
		spec.PreemptAt[spec.Victim] = []uint64{uint64(r.Range(1, []int{40, 300, 2500}[r.Intn(3)]))}
		spec.PHot = []uint32{0, 1 << 32 / 100}[r.Intn(2)]
	case "dense-hot":
		spec.PHot = 1<<32 - 1
		spec.StickPct = 0
	}
	return spec
}

func sortU64(a []uint64) {
	for i := 1; i < len(a); i++ {
		for j := i; j > 0 && a[j] < a[j-1]; j-- {
			a[j], a[j-1] = a[j-1], a[j]
		}
	}
}

// GenHistorySpec derives a long sequential history run: one or two callers, many calls, no
// preemption — the fault-free configuration in which a failure is attributable to history alone.
func GenHistorySpec(procSeed uint64, idx int, pool []*Key, eligible []int) RunSpec {
	r := prng.Sub(procSeed, "c14-history-run", uint64(idx))
	spec := RunSpec{Index: idx, Seed: r.Uint64(), Strategy: "sequential", StickPct: 100, ClockJumps: r.Chance(1, 2)}
	nt := 1
	if r.Chance(1, 4) {
		nt = 2
		spec.StickPct = 50
	}
	// a recurring working set plus fresh keys: the same source under different parameters, the same
	// parameters under different sources, failures between successes
	ws := make([]int, r.Range(2, 8))
	for i := range ws {
		ws[i] = eligible[r.Intn(len(eligible))]
	}
	nShared := 0
	sharedFor := map[string]int{}
	for t := 0; t < nt; t++ {
		var ts TaskSpec
		style := []string{"", "", "", "reused", "refilled", "refilled"}[r.Intn(6)]
		nc := r.Range(80, 200)
		for c := 0; c < nc; c++ {
			var ki int
			if r.Chance(1, 4) {
				ki = ws[r.Intn(len(ws))]
			} else {
				ki = eligible[r.Intn(len(eligible))]
			}
			k := pool[ki]
			forms := k.OptForms()
			cs := CallSpec{Key: ki, Form: forms[r.Intn(len(forms))]}
			if k.API == "compile" && style != "" && !r.Chance(1, 10) {
				cs.Form = style
			}
			if IsSharedForm(cs.Form) {
				sig := SharedSig(k, cs.Form)
				id, ok := sharedFor[sig]
				if !ok {
					nShared++
					id = nShared
					sharedFor[sig] = id
				}
				cs.Shared = id
			}
			ts.Calls = append(ts.Calls, cs)
		}
		spec.Tasks = append(spec.Tasks, ts)
	}
	return spec
}
