// Package c14sim holds what the C14 reference process, simulation process and
// driver share: the workload pool, the canonical result digest, the API calls.
package c14sim

import (
	"fmt"
	"sort"
	"strings"

	"github.com/runreveal/pql/zzverif/pqlgen"
	"github.com/runreveal/pql/zzverif/prng"
)

// Key identifies one API call by what the property says its result may depend on.
type Key struct {
	ID     int         `json:"id"`
	API    string      `json:"api"` // compile | parse | scan | split
	Source string      `json:"source"`
	Params [][2]string `json:"params,omitempty"` // sorted by name; compile only
	// Extra holds values for option fields other than Parameters that the tree under test has
	// (field name, JSON value), sorted by name; see options.go. Empty on the pinned tree.
	Extra [][2]string `json:"extra,omitempty"`
	// Ref is the result of a lone first call in a fresh, uninstrumented process.
	Ref      string   `json:"ref,omitempty"`
	RefOK    bool     `json:"ref_ok"`
	Excluded string   `json:"excluded,omitempty"`
	Tags     []string `json:"tags,omitempty"`
}

// Sig is the identity of the key.
func (k *Key) Sig() string {
	if len(k.Extra) > 0 {
		return fmt.Sprintf("%s|%q|%q|%q", k.API, k.Source, k.Params, k.Extra)
	}
	return fmt.Sprintf("%s|%q|%q", k.API, k.Source, k.Params)
}

// ParamMap builds a fresh map with the key's parameter content.
func (k *Key) ParamMap() map[string]string {
	m := make(map[string]string, len(k.Params))
	for _, kv := range k.Params {
		m[kv[0]] = kv[1]
	}
	return m
}

// OptForms lists the option representations equivalent for this key (O2).
func (k *Key) OptForms() []string {
	if k.API != "compile" {
		return []string{"-"}
	}
	if len(k.Extra) > 0 && len(k.Params) == 0 {
		return []string{"zero", "nilmap-explicit", "emptymap", "shared", "sharedopts", "sharedzero", "reused", "refilled"}
	}
	if len(k.Params) == 0 {
		return []string{"pkgfunc", "nilopts", "zero", "nilmap-explicit", "emptymap", "shared", "sharedopts", "sharedzero", "reused", "refilled"}
	}
	return []string{"private", "shared", "sharedopts", "reused", "refilled"}
}

var paramSets = [][][2]string{
	{{"x", "$1"}},
	{{"n", "42"}, {"s", "'str'"}},
	{{"lim", "10"}, {"x", "{x:Int64}"}, {"y", "?"}},
	{{"a", "col_a"}, {"k", "$2"}, {"x", "$1"}, {"y", "$3"}},
	{{"true", "1"}, {"count", "c"}},
	{{"T", "other_table"}, {"s", "'it''s'"}},
	// many entries: map growth, iteration order, anything sized for "a few parameters"
	{{"a", "$1"}, {"b", "$2"}, {"c", "$3"}, {"k", "$4"}, {"lim", "$5"}, {"m", "$6"}, {"n", "$7"}, {"s", "$8"}, {"x", "$9"}, {"y", "$10"}, {"z", "$11"}, {"total", "$12"}, {"cnt", "$13"}, {"State", "$14"}, {"EventType", "$15"}, {"p16", "$16"}, {"p17", "$17"}, {"p18", "$18"}},
	// names that differ only in case
	{{"LIMIT", "20"}, {"Limit", "10"}},
	{{"Kind", "{k:Int32}"}, {"cutoff", "3"}, {"CUTOFF", "4"}},
	{{"X", "$2"}, {"x", "$1"}, {"N", "7"}, {"n", "8"}},
	// the same names as above with other values (a map changed without changing its size)
	{{"x", "$2"}},
	{{"n", "7"}, {"s", "'other'"}},
	{{"lim", "20"}, {"x", "{y:Int64}"}, {"y", "$9"}},
	{{"a", "col_b"}, {"k", "$3"}, {"x", "$2"}, {"y", "$1"}},
	{{"x", ""}, {"y", " "}, {"n", "(1)"}, {"s", "'; --"}, {"lim", "n"}, {"a", "x"}, {"true", "false"}, {"null", "0"}, {"now", "then"}},
}

// curated sources: every built-in, unknown functions, join kinds, keywords, failures at each stage.
var curated = []string{
	"T",
	"T | count",
	"T | where a == 1 and b != 'x' or c < 3",
	"T | project a, b = strcat(a, 'x', b), c = tolower(State)",
	"T | where isnull(a) or isnotnull(b)",
	"T | where not(a == 1)",
	"T | extend t = now(), u = toupper(s), v = iif(a > 1, 'y', 'n'), w = iff(b, 1, 2)",
	"T | summarize count(), countif(a > 1), total = sum(b) by k, State",
	"T | summarize c = count() by k | sort by c desc nulls first | take 10",
	"T | top 3 by a asc",
	"T | join kind=inner (U | where b > 1) on k",
	"T | join kind=leftouter (U) on $left.a == $right.b",
	"T | join (U) on k, a",
	"T | join kind=fullouter (U) on k",
	"T | join kind=bogus (U) on k | count",
	"T | as r1 | where a in (1, 2, 3)",
	"T | render barchart with (title='x;y')",
	"T | where foo(a, 1) == bar() and strlen(s) > 2",
	"T | where count() > 1",
	"T | where a =~ 'X' and b !~ s",
	"T | where m['key'] == 1 and m[\"k;2\"] == x",
	"let x = 1; T | where a == x",
	"let x = 1; let y = x + 2; let x = y * 3; T | project x, y, z = x + y",
	"let s = 'a;b'; let n = 0x1F; T | where b == s and a < n | take n",
	"let x = true; let y = null; T | where x and isnull(y)",
	"let a = 5; T | where a == 1 | project a",
	"let lim = 3; T | take lim; let lim = 4",
	"let x = no_such; T",
	"let x = `q`; T",
	"let = 5; T",
	"T | where x == 1 and y == 2 and n == 3 and s == 'z' | take lim",
	"T | project x, y, n",
	"T | where a == and",
	"T | where by",
	"T | in",
	"T |",
	"T | bogus",
	"T | where a == \"unterminated",
	"!",
	"T | where a == #",
	"T | take 1.5",
	"T | where not()",
	"T | where $left.a == 1",
	"T | project strcat()",
	"T; U",
	"",
	";;",
	"// only a comment",
	"`my table` | where `my col` == 'v' | project `out col` = `semi;col`",
	"T | where a == -5 and b == -c",
	"T | where true and false or null",
	"and",
	"let and = 1; T",
	"T | sort by a, b desc | limit 0x10",
	"T | where 1e3 < a and .5 > b and 007 == c",
	// several sub-parts of the same kind: two errors, two lets, several join conditions, several joins
	"T | bogus | alsobogus | where a == #",
	"let x = no1; let y = no2; T | where q == !",
	"T | where a == # and b == ! | project strcat()",
	"T | join kind=nope (U | join kind=alsonope (V) on k) on a",
	"T | join (U) on a, b, $left.c == $right.d | join kind=leftouter (V | where z > 1) on k | join (W) on w",
	"let p = 1; let q = 2; let r = p + q; let s = 's'; T | project p, q, r, s | extend p2 = p * 2, q2 = q * 2",
	"T | summarize a = count(), b = sum(x), c = min(y), d = max(z) by k, State, EventType | sort by a, b, c desc",
	"T | project a, a, b = a, a = b",
	"T | extend x = 1, y = 2 | extend x = y, y = x",
	"T | where x in (1, 2, 3) and y in ('a', 'b') or n in (x, y)",
	// deep nesting (recursion depth of the parser and the writer): nested calls, index expressions, in-lists
	"T | where " + strings.Repeat("abs(", 40) + "x" + strings.Repeat(")", 40) + " > 0",
	"T | where " + strings.Repeat("f(", 90) + "x + 1" + strings.Repeat(")", 90) + " > 0 | project a",
	"U | extend v = " + strings.Repeat("tolower(", 120) + "s" + strings.Repeat(")", 120),
	"T | where " + strings.Repeat("m[", 70) + "'k'" + strings.Repeat("]", 70) + " == 1",
	"T | where a in (1, b in (2, c in (3, d in (4, e in (5, 6)))))",
	// lets that read a parameter (valid only when the parameter is supplied)
	"let lim2 = lim; T | take lim2",
	"let a1 = x; let b1 = a1 + y; T | where k == b1 | project a1, n",
	"let q = s; T | where State == q",
	// several stages that each fail at compile time (which error is reported?)
	"T | where not() | project a = strcat() | project b = isnull() | count",
	"T | where a == 1 | extend x = now(1) | where iif(a) | summarize count(1) by k",
	"T | join (U | where not(1, 2)) on k | where tolower() == 'x' | project toupper(a, b)",
	"let x = 1; T | where isnotnull() | where x == 1 | extend y = countif() | where $left.a == 1",
	// names the compiler generates itself, written by the user
	"T | as __subquery1 | where x > 1 | count", "__subquery0 | where a > 1 | count", "T | as __subquery0 | project a | as __subquery1 | summarize count() by a | where a > 1",
	"T | join (__subquery0 | where b > 1) on k | project `$left`, `$right`", "let __subquery0 = 1; T | where a == __subquery0 | count | where a > 0",
	// signed and otherwise unusual row counts
	"T | take -1", "T | limit -n", "T | top -3 by x", "T | take - 5 | count", "T | top +3 by x", "T | take x", "T | take 'five'", "T | top 1e3 by a",
	// names that differ only in case (parameters, lets, references in a third spelling)
	"T | take limit", "T | where x > cutoff and y == Kind | take Limit", "let Cutoff = 1; let CUTOFF = 2; T | where x > cutoff",
	"let KIND = 7; T | where y == kind", "let x = 1; let X = 2; T | where a == x and b == X and c == `x`", "t | join (T) on K, k",
	// mistyped names: whatever ranks the known names by closeness meets ties here
	"T | ta", "T | tat 5", "T | tak 5", "T | wher a == 1", "T | sor by a", "T | tp 3 by a", "T | coun", "T | a", "T | jion (U) on k", "T | ectend x = 1 | projct x",
	"T | join kind=iner (U) on k", "T | join kind=leftoute (U) on k", "T | join kind=in (U) on k",
	"T | where tolowr(a) == 'x' and isnul(b) | project strca(a, b), if(a, 1, 2)",
	"T | sort by a des, b ascending nulls frist",
	// lets whose SQL doubles at every step (64 KiB and more of SQL from a short source)
	expandingLets("T | where s == v12", 12, false),
	expandingLets("U | project v12, v2", 12, true),
	expandingLets("T | count", 11, false) + "; let w = strcat(v11, v11, v11)",
	// long pipelines: dozens of sub-queries
	"T" + strings.Repeat(" | where a > 1", 20),
	"T" + strings.Repeat(" | where a > 1 | project a, b | extend c = a + b", 9),
	"T" + strings.Repeat(" | summarize n = count() by k | where n > x", 12) + " | join (U" + strings.Repeat(" | where b < 2", 18) + ") on k",
	"let x = 1; T" + strings.Repeat(" | extend y = x | where y == x", 33),
}

// expandingLets builds a chain of lets each of which mentions the previous one twice.
func expandingLets(query string, n int, spread bool) string {
	var sb strings.Builder
	sb.WriteString("let v0 = 'abcdefghijklmnopqrstuvwxyz012345';")
	for i := 1; i <= n; i++ {
		if spread {
			sb.WriteString("\n  ")
		} else {
			sb.WriteString(" ")
		}
		fmt.Fprintf(&sb, "let v%d = strcat(v%d, v%d);", i, i-1, i-1)
	}
	sb.WriteString("\n" + query)
	return sb.String()
}

// GenPool generates the workload pool for a base seed: every source under several parameter maps.
func GenPool(seed uint64, nGenerated int) []*Key { return genPool(seed, nGenerated, false) }

// GenPoolWide generates a pool with many distinct sources and few variants of each (long histories).
func GenPoolWide(seed uint64, nGenerated int) []*Key { return genPool(seed, nGenerated, true) }

func genPool(seed uint64, nGenerated int, wide bool) []*Key {
	seen := map[string]bool{}
	var keys []*Key
	var extra [][2]string
	add := func(api, src string, params [][2]string, tags ...string) {
		k := &Key{API: api, Source: src, Params: params, Tags: tags, Extra: extra}
		if seen[k.Sig()] {
			return
		}
		seen[k.Sig()] = true
		k.ID = len(keys)
		keys = append(keys, k)
	}
	fillable, _ := OptionFields()
	haveExtra := len(fillable) > 0
	var sources []string
	sources = append(sources, curated...)
	r := prng.Sub(seed, "c14-pool", 0)
	g := &pqlgen.G{R: r}
	for i := 0; i < nGenerated; i++ {
		l := &pqlgen.Layout{R: r, NewlinePct: []int{0, 10, 40}[r.Intn(3)], CommentPct: []int{0, 0, 10}[r.Intn(3)]}
		var sb strings.Builder
		nl := r.Pick([]int{5, 3, 2, 1})
		var bound []string
		for j := 0; j < nl; j++ {
			name := pqlgen.LetNames[r.Intn(len(pqlgen.LetNames))]
			if r.Chance(1, 10) {
				sb.WriteString(l.RenderOne(g.LetBad(name)))
			} else {
				sb.WriteString(l.RenderOne(g.Let(name, bound)))
				bound = append(bound, name)
			}
			sb.WriteString(";")
			sb.WriteString(l.Gap(false, false))
		}
		if r.Chance(1, 12) {
			sb.WriteString(l.RenderOne(g.QueryBad()))
		} else {
			sb.WriteString(l.RenderOne(g.Query(pqlgen.LetNames, r.Chance(2, 3))))
		}
		if r.Chance(1, 5) {
			sb.WriteString(";")
		}
		sources = append(sources, sb.String())
	}
	for i, src := range sources {
		add("compile", src, nil)
		// the same source under several parameter maps
		np := r.Pick([]int{2, 3, 2})
		if i < len(curated) {
			np = 2
		}
		if wide {
			np = r.Intn(2)
		}
		for j := 0; j < np; j++ {
			ps := paramSets[r.Intn(len(paramSets))]
			cp := append([][2]string(nil), ps...)
			sort.Slice(cp, func(a, b int) bool { return cp[a][0] < cp[b][0] })
			add("compile", src, cp)
		}
		// the same source with the tree's further option fields set (none on the pinned tree)
		if xr := prng.Sub(seed, "c14-pool-extra", uint64(i)); haveExtra && (!wide || xr.Chance(1, 3)) {
			for j := 0; j < 1+xr.Intn(2); j++ {
				extra = GenExtra(xr)
				var cp [][2]string
				if xr.Chance(1, 3) {
					cp = append(cp, paramSets[xr.Intn(len(paramSets))]...)
					sort.Slice(cp, func(a, b int) bool { return cp[a][0] < cp[b][0] })
				}
				add("compile", src, cp)
				extra = nil
			}
		}
		apis := 4
		if wide {
			apis = 12
		}
		switch r.Intn(apis) {
		case 0:
			add("parse", src, nil)
		case 1:
			add("scan", src, nil)
		case 2:
			add("split", src, nil)
		}
	}
	return keys
}
