package c14sim

import (
	"fmt"
	"reflect"
	"runtime/debug"
	"strings"

	"github.com/runreveal/pql"
	"github.com/runreveal/pql/parser"
)

// Hooks are called around the library call (scheduling points in the simulation; nil in the reference process).
type Hooks struct {
	Before func()
	After  func()
}

// MapSnapshot renders a parameter map canonically.
func MapSnapshot(m map[string]string) string {
	if m == nil {
		return "<nil map>"
	}
	return Dump(m)
}

// DoCall performs the API call of key k with the given option form and returns
// the canonical result. shared is the map object to use for the "shared" form.
// The second result reports a violation of O3 (caller's map modified), if any.
func DoCall(k *Key, form string, sh *Shared, h Hooks) (result string, mapViolation string) {
	result, mapViolation, _ = DoCallKeep(k, form, sh, h)
	return
}

// Shared is what several calls (and several callers) of one run use together: one parameter map
// object, and one CompileOptions value holding it — callers keep an options value around and use it
// from many goroutines, so anything the library remembers inside it is shared state too.
type Shared struct {
	Map  map[string]string
	Opts *pql.CompileOptions
}

// NewShared builds the shared objects for key k (before the run starts). With zero set the options
// value is the zero value (no parameter map at all).
func NewShared(k *Key, zero bool) *Shared {
	sh := &Shared{Opts: &pql.CompileOptions{}}
	if !zero {
		sh.Map = k.ParamMap()
		sh.Opts.Parameters = sh.Map
	}
	applyExtra(sh.Opts, k.Extra)
	return sh
}

// resetExported sets every exported field of the options value to its zero value and leaves whatever
// the library keeps in unexported fields alone.
func resetExported(opts *pql.CompileOptions) {
	v := reflect.ValueOf(opts).Elem()
	for i := 0; i < v.NumField(); i++ {
		if f := v.Field(i); f.CanSet() {
			f.Set(reflect.Zero(f.Type()))
		}
	}
}

// NewOwn returns a caller's own options value for the "reused" form.
func NewOwn() *Shared { return &Shared{Opts: &pql.CompileOptions{}} }

// IsSharedForm reports whether the option form uses an object shared between calls.
func IsSharedForm(form string) bool {
	return form == "shared" || form == "sharedopts" || form == "sharedzero"
}

// SharedSig identifies the shared object a call with this key and form uses within a run.
func SharedSig(k *Key, form string) string {
	if form == "sharedzero" {
		return "zero|" + Dump(k.Extra)
	}
	return Dump(k.Params) + "|" + Dump(k.Extra)
}

// DoCallKeep is DoCall that also returns a function re-rendering the raw values the call returned
// (token slices, syntax trees, strings). Calling it later — after other calls have run — must give
// the same text: results must not alias state that later calls overwrite.
func DoCallKeep(k *Key, form string, sh *Shared, h Hooks) (result string, mapViolation string, again func() string) {
	var opts *pql.CompileOptions
	var watched map[string]string
	usePkgFunc := false
	if k.API == "compile" {
		switch form {
		case "pkgfunc":
			usePkgFunc = true
		case "nilopts":
			opts = nil
		case "zero":
			opts = &pql.CompileOptions{}
		case "nilmap-explicit":
			opts = &pql.CompileOptions{Parameters: nil}
		case "emptymap":
			watched = map[string]string{}
			opts = &pql.CompileOptions{Parameters: watched}
		case "private":
			watched = k.ParamMap()
			opts = &pql.CompileOptions{Parameters: watched}
		case "shared":
			watched = sh.Map
			opts = &pql.CompileOptions{Parameters: sh.Map}
		case "sharedopts", "sharedzero":
			watched = sh.Map
			opts = sh.Opts
		case "reused":
			// one options value per caller, kept between its calls; before each call the caller sets
			// its exported fields to what this call is to be given (a caller may do that between calls)
			opts = sh.Opts
			resetExported(opts)
			if len(k.Params) > 0 {
				watched = k.ParamMap()
				opts.Parameters = watched
			}
		case "refilled":
			// as "reused", and the caller's own map object is emptied and refilled in place between its calls
			opts = sh.Opts
			resetExported(opts)
			if sh.Map == nil {
				sh.Map = map[string]string{}
			}
			for name := range sh.Map {
				delete(sh.Map, name)
			}
			for _, kv := range k.Params {
				sh.Map[kv[0]] = kv[1]
			}
			watched = sh.Map
			opts.Parameters = watched
		default:
			panic("c14sim: unknown option form " + form)
		}
	}
	before := ""
	if watched != nil {
		before = MapSnapshot(watched)
	}
	var renderExtra func() string
	if form != "sharedopts" && form != "sharedzero" { // the shared value got its fields when it was built
		renderExtra = applyExtra(opts, k.Extra)
	}
	extraBefore := ""
	if renderExtra != nil {
		extraBefore = renderExtra()
	}
	func() {
		defer func() {
			if p := recover(); p != nil {
				result = fmt.Sprintf("PANIC: %v\n%s", p, panicSite(debug.Stack()))
			}
			if h.After != nil {
				h.After()
			}
		}()
		if h.Before != nil {
			h.Before()
		}
		switch k.API {
		case "compile":
			var sql string
			var err error
			if usePkgFunc {
				sql, err = pql.Compile(k.Source)
			} else {
				sql, err = opts.Compile(k.Source)
			}
			render := func() string {
				if err != nil {
					return fmt.Sprintf("ERR(sql=%q): %s", sql, err.Error())
				}
				return "OK: " + sql
			}
			result = render()
			again = render
		case "parse":
			stmts, err := parser.Parse(k.Source)
			render := func() string {
				es := "<nil>"
				if err != nil {
					es = err.Error()
				}
				return "PARSE err=" + es + " stmts=" + Dump(stmts)
			}
			result = render()
			again = render
		case "scan":
			toks := parser.Scan(k.Source)
			render := func() string { return "SCAN " + Dump(toks) }
			result = render()
			again = render
		case "split":
			parts := parser.SplitStatements(k.Source)
			render := func() string { return "SPLIT " + Dump(parts) }
			result = render()
			again = render
		default:
			panic("c14sim: unknown api " + k.API)
		}
	}()
	if watched != nil {
		if after := MapSnapshot(watched); after != before {
			mapViolation = fmt.Sprintf("parameter map before %s after %s", before, after)
		}
	}
	if renderExtra != nil && mapViolation == "" {
		if after := renderExtra(); after != extraBefore {
			mapViolation = fmt.Sprintf("option fields before %s after %s", extraBefore, after)
		}
	}
	return result, mapViolation, again
}

// panicSite extracts the first library frame of a stack trace (stable across processes: no addresses).
func panicSite(stack []byte) string {
	for _, l := range strings.Split(string(stack), "\n") {
		l = strings.TrimSpace(l)
		if strings.Contains(l, "github.com/runreveal/pql") && !strings.Contains(l, "zzverif") && strings.Contains(l, "(") && !strings.HasPrefix(l, "/") {
			if i := strings.LastIndex(l, "("); i > 0 {
				return l[:i]
			}
			return l
		}
	}
	return ""
}
