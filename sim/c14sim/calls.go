package c14sim

import (
	"fmt"
	"runtime/debug"
	"strings"

	"github.com/runreveal/pql"
	"github.com/runreveal/pql/parser"
)

// Hooks are called around the library call (scheduling points in the simulation; nil in the reference process).
type Hooks struct {
	Before func()
	After  func()
}

// MapSnapshot renders a parameter map canonically.
func MapSnapshot(m map[string]string) string {
	if m == nil {
		return "<nil map>"
	}
	return Dump(m)
}

// DoCall performs the API call of key k with the given option form and returns
// the canonical result. shared is the map object to use for the "shared" form.
// The second result reports a violation of O3 (caller's map modified), if any.
func DoCall(k *Key, form string, shared map[string]string, h Hooks) (result string, mapViolation string) {
	result, mapViolation, _ = DoCallKeep(k, form, shared, h)
	return
}

// DoCallKeep is DoCall that also returns a function re-rendering the raw values the call returned
// (token slices, syntax trees, strings). Calling it later — after other calls have run — must give
// the same text: results must not alias state that later calls overwrite.
func DoCallKeep(k *Key, form string, shared map[string]string, h Hooks) (result string, mapViolation string, again func() string) {
	var opts *pql.CompileOptions
	var watched map[string]string
	usePkgFunc := false
	if k.API == "compile" {
		switch form {
		case "pkgfunc":
			usePkgFunc = true
		case "nilopts":
			opts = nil
		case "zero":
			opts = &pql.CompileOptions{}
		case "nilmap-explicit":
			opts = &pql.CompileOptions{Parameters: nil}
		case "emptymap":
			watched = map[string]string{}
			opts = &pql.CompileOptions{Parameters: watched}
		case "private":
			watched = k.ParamMap()
			opts = &pql.CompileOptions{Parameters: watched}
		case "shared":
			watched = shared
			opts = &pql.CompileOptions{Parameters: shared}
		default:
			panic("c14sim: unknown option form " + form)
		}
	}
	before := ""
	if watched != nil {
		before = MapSnapshot(watched)
	}
	renderExtra := applyExtra(opts, k.Extra)
	extraBefore := ""
	if renderExtra != nil {
		extraBefore = renderExtra()
	}
	func() {
		defer func() {
			if p := recover(); p != nil {
				result = fmt.Sprintf("PANIC: %v\n%s", p, panicSite(debug.Stack()))
			}
			if h.After != nil {
				h.After()
			}
		}()
		if h.Before != nil {
			h.Before()
		}
		switch k.API {
		case "compile":
			var sql string
			var err error
			if usePkgFunc {
				sql, err = pql.Compile(k.Source)
			} else {
				sql, err = opts.Compile(k.Source)
			}
			render := func() string {
				if err != nil {
					return fmt.Sprintf("ERR(sql=%q): %s", sql, err.Error())
				}
				return "OK: " + sql
			}
			result = render()
			again = render
		case "parse":
			stmts, err := parser.Parse(k.Source)
			render := func() string {
				es := "<nil>"
				if err != nil {
					es = err.Error()
				}
				return "PARSE err=" + es + " stmts=" + Dump(stmts)
			}
			result = render()
			again = render
		case "scan":
			toks := parser.Scan(k.Source)
			render := func() string { return "SCAN " + Dump(toks) }
			result = render()
			again = render
		case "split":
			parts := parser.SplitStatements(k.Source)
			render := func() string { return "SPLIT " + Dump(parts) }
			result = render()
			again = render
		default:
			panic("c14sim: unknown api " + k.API)
		}
	}()
	if watched != nil {
		if after := MapSnapshot(watched); after != before {
			mapViolation = fmt.Sprintf("parameter map before %s after %s", before, after)
		}
	}
	if renderExtra != nil && mapViolation == "" {
		if after := renderExtra(); after != extraBefore {
			mapViolation = fmt.Sprintf("option fields before %s after %s", extraBefore, after)
		}
	}
	return result, mapViolation, again
}

// panicSite extracts the first library frame of a stack trace (stable across processes: no addresses).
func panicSite(stack []byte) string {
	for _, l := range strings.Split(string(stack), "\n") {
		l = strings.TrimSpace(l)
		if strings.Contains(l, "github.com/runreveal/pql") && !strings.Contains(l, "zzverif") && strings.Contains(l, "(") && !strings.HasPrefix(l, "/") {
			if i := strings.LastIndex(l, "("); i > 0 {
				return l[:i]
			}
			return l
		}
	}
	return ""
}
