package c14sim

// ProcCmd tells a simulation process what to do.
type ProcCmd struct {
	PoolPath  string    `json:"pool_path"`
	Seed      uint64    `json:"seed"`
	Runs      int       `json:"runs"`
	Explicit  []RunSpec `json:"explicit,omitempty"`
	Out       string    `json:"out"`
	TracePath string    `json:"trace_path,omitempty"`
	LogPath   string    `json:"log_path,omitempty"`
	RecordHot bool      `json:"record_hot,omitempty"`
	// History: generate long sequential history runs instead of concurrent ones.
	History bool `json:"history,omitempty"`
}

// CallResult is the observed result of one call.
type CallResult struct {
	Task         int    `json:"task"`
	Call         int    `json:"call"`
	Key          int    `json:"key"`
	Form         string `json:"form"`
	Result       string `json:"result"`
	MapViolation string `json:"map_violation,omitempty"`
	Yields       uint64 `json:"yields"`
	// Again re-renders the raw returned values (not serialised).
	Again func() string `json:"-"`
}

// Violation is an oracle violation found inside a simulation process.
type Violation struct {
	Class    string      `json:"class"`
	Detail   string      `json:"detail"`
	RunIndex int         `json:"run_index"`
	Task     int         `json:"task"`
	Call     int         `json:"call"`
	Key      int         `json:"key"`
	Form     string      `json:"form,omitempty"`
	Source   string      `json:"source,omitempty"`
	Params   [][2]string `json:"params,omitempty"`
	Expected string      `json:"expected,omitempty"`
	Observed string      `json:"observed,omitempty"`
	// Specs: every run the process executed up to and including the failing one
	// (the failing one with its realised schedule as an explicit switch list).
	Specs []RunSpec `json:"specs,omitempty"`
}

// HotYield mirrors zzsimrt.HotYield.
type HotYield struct {
	Yield uint64 `json:"yield"`
	Site  uint32 `json:"site"`
}

// ProcResult is what a simulation process reports.
type ProcResult struct {
	Seed           uint64         `json:"seed"`
	RunsDone       int            `json:"runs_done"`
	Calls          int            `json:"calls"`
	Yields         uint64         `json:"yields"`
	Switches       int            `json:"switches"`
	Preempts       int            `json:"preempts"`
	NumSites       int            `json:"num_sites"`
	Strategies     map[string]int `json:"strategies"`
	Probes         map[string]int `json:"probes"`
	Sigs           []uint64       `json:"sigs"`
	SigsNontrivial []uint64       `json:"sigs_nontrivial"`
	FnPairs        []uint64       `json:"fn_pairs"`
	Digest         string         `json:"digest"`
	Events         int            `json:"events"`
	Violation      *Violation     `json:"violation,omitempty"`
	Samples        []any          `json:"samples,omitempty"`
	ClockJumps     int            `json:"clock_jumps"`
	TimersFired    int            `json:"timers_fired"`
	SimNanos       int64          `json:"simulated_nanoseconds"`
	// UnownedChoices counts decisions the Go runtime took at random inside the library during this
	// process (several ready select cases, map ranges without a canonical key order).
	UnownedChoices int `json:"unowned_choices"`
	// Stuck: a run ended with tasks waiting on channels nothing in the simulation serves (inconclusive).
	Stuck string       `json:"stuck,omitempty"`
	Hot   [][]HotYield `json:"hot,omitempty"`
}
