// c14proc is one C14 simulation process: it is built from the INSTRUMENTED copy
// of the library with -race, executes a sequence of runs (run 0 on genuinely
// cold process state) under the zzsimrt scheduler and checks oracles O1, O3, O5.
// O4 (data race) and O6 (runtime fatal error) end the process; the driver reads
// the exit status, stderr and the switch trace.
package main

import (
	"time"

	"crypto/sha256"
	"encoding/json"
	"fmt"
	"os"
	"sort"
	"syscall"

	"github.com/runreveal/pql/zzsimrt"
	"github.com/runreveal/pql/zzverif/c14sim"
)

func die(format string, args ...any) {
	fmt.Fprintf(os.Stderr, "c14proc: "+format+"\n", args...)
	os.Exit(2)
}

func main() {
	// goroutines the library starts need two descriptors each: lift the soft limit to the hard one
	var rl syscall.Rlimit
	if syscall.Getrlimit(syscall.RLIMIT_NOFILE, &rl) == nil && rl.Cur < rl.Max {
		rl.Cur = rl.Max
		syscall.Setrlimit(syscall.RLIMIT_NOFILE, &rl)
	}
	path := os.Getenv("ZZSIM_CMD")
	if path == "" {
		die("ZZSIM_CMD not set")
	}
	b, err := os.ReadFile(path)
	if err != nil {
		die("%v", err)
	}
	var cmd c14sim.ProcCmd
	if err := json.Unmarshal(b, &cmd); err != nil {
		die("%v", err)
	}
	pb, err := os.ReadFile(cmd.PoolPath)
	if err != nil {
		die("%v", err)
	}
	var pool []*c14sim.Key
	if err := json.Unmarshal(pb, &pool); err != nil {
		die("%v", err)
	}
	var eligible []int
	for i, k := range pool {
		if k.RefOK {
			eligible = append(eligible, i)
		}
	}
	if len(eligible) == 0 {
		die("empty pool")
	}
	if cmd.TracePath != "" {
		fd, err := syscall.Open(cmd.TracePath, syscall.O_WRONLY|syscall.O_CREAT|syscall.O_TRUNC|syscall.O_APPEND, 0o644)
		if err != nil {
			die("%v", err)
		}
		zzsimrt.TraceFD = fd
	}
	var logf *os.File
	if cmd.LogPath != "" {
		logf, err = os.Create(cmd.LogPath)
		if err != nil {
			die("%v", err)
		}
		defer logf.Close()
	}

	res := &c14sim.ProcResult{Seed: cmd.Seed, Strategies: map[string]int{}, Probes: map[string]int{}, NumSites: zzsimrt.NumSites()}
	h := sha256.New()
	logLine := func(format string, args ...any) {
		s := fmt.Sprintf(format, args...)
		h.Write([]byte(s))
		h.Write([]byte{'\n'})
		res.Events++
		if logf != nil {
			logf.WriteString(s)
			logf.WriteString("\n")
		}
	}
	logLine("SEED %d", cmd.Seed)
	sigs := map[uint64]bool{}
	sigsNT := map[uint64]bool{}
	pairs := map[uint64]bool{}

	nRuns := cmd.Runs
	if len(cmd.Explicit) > 0 {
		nRuns = len(cmd.Explicit)
	}
runs:
	for ri := 0; ri < nRuns; ri++ {
		var spec c14sim.RunSpec
		if len(cmd.Explicit) > 0 {
			spec = cmd.Explicit[ri]
		} else if cmd.History {
			spec = c14sim.GenHistorySpec(cmd.Seed, ri, pool, eligible)
		} else {
			spec = c14sim.GenRunSpec(cmd.Seed, ri, pool, eligible)
		}
		reps := 1
		if spec.Repeat > 1 {
			reps = spec.Repeat
		}
		for rep := 0; rep < reps; rep++ {
			zzsimrt.TraceMark(uint64(ri))
			out := executeRun(&spec, pool, cmd.RecordHot)
			res.RunsDone++
			if cmd.History {
				res.Strategies["long-history(sequential)"]++
			} else {
				res.Strategies[spec.Strategy]++
			}
			res.Calls += out.calls
			res.Switches += out.rr.SwitchCount
			res.Preempts += out.rr.PreemptsFired
			for i := range spec.Tasks {
				res.Yields += out.rr.Yields[i]
			}
			logLine("RUN %d strategy=%s tasks=%d sig=%x switches=%d outcome=%d", spec.Index, spec.Strategy, len(spec.Tasks), out.rr.Sig, out.rr.SwitchCount, out.rr.Outcome)
			for _, sw := range out.rr.Switches {
				logLine(" S t=%d k=%d y=%d s=%d n=%d", sw.Task, sw.Kind, sw.Yield, sw.Site, sw.Next)
			}
			for _, cr := range out.results {
				logLine(" C t=%d c=%d key=%d form=%s res=%x", cr.Task, cr.Call, cr.Key, cr.Form, sha256.Sum256([]byte(cr.Result)))
			}
			sigs[out.rr.Sig] = true
			if out.rr.Nontrivial {
				sigsNT[out.rr.Sig] = true
			}
			for _, p := range out.rr.FnPairs {
				pairs[p] = true
			}
			// probes
			if ri == 0 && rep == 0 {
				res.Probes["cold-start-runs"]++
			}
			if out.rr.OnceContended > 0 {
				res.Probes["two-tasks-inside-once-initialisation"] += 1
			}
			if out.rr.LockContended > 0 {
				res.Probes["task-blocked-on-a-lock-held-by-a-parked-task"]++
			}
			if out.sameKeyTasks {
				res.Probes["same-key-observed-in-2-or-more-tasks"]++
			}
			if out.sharedTasks {
				res.Probes["map-object-shared-by-2-or-more-tasks"]++
				if out.rr.Nontrivial {
					res.Probes["shared-map-run-with-switch-inside-library-calls"]++
				}
			}
			if out.rr.Nontrivial {
				res.Probes["runs-with-switch-between-two-tasks-inside-library-calls"]++
			}
			if out.rr.Truncated {
				res.Probes["switch-list-truncated"]++
			}
			if out.rr.Daemons > 0 {
				res.Probes["runs-with-library-started-goroutines-alive"]++
			}
			if out.rr.DaemonSwitch {
				res.Probes["library-started-goroutine-ran-while-a-caller-was-inside-a-call"]++
			}
			res.ClockJumps += out.rr.ClockJumps
			res.TimersFired += out.rr.TimersFired
			res.SimNanos = out.rr.SimNow
			if cmd.RecordHot {
				for i := range spec.Tasks {
					hy := make([]c14sim.HotYield, len(out.rr.Hot[i]))
					for j, y := range out.rr.Hot[i] {
						hy[j] = c14sim.HotYield{Yield: y.Yield, Site: y.Site}
					}
					res.Hot = append(res.Hot, hy)
				}
			}
			if len(res.Samples) < 2 && out.rr.Nontrivial && (ri == 0 || ri == 3) {
				res.Samples = append(res.Samples, sampleOf(&spec, out, pool))
			}
			if out.stuck != "" {
				res.Stuck = out.stuck
				break runs
			}
			if out.violation != nil {
				v := out.violation
				v.RunIndex = ri
				// the explicit case: all runs so far, the failing one with its realised schedule
				for j := 0; j <= ri; j++ {
					var s c14sim.RunSpec
					if len(cmd.Explicit) > 0 {
						s = cmd.Explicit[j]
					} else if cmd.History {
						s = c14sim.GenHistorySpec(cmd.Seed, j, pool, eligible)
					} else {
						s = c14sim.GenRunSpec(cmd.Seed, j, pool, eligible)
					}
					if j == ri {
						s.Explicit = toEv(out.rr.Switches)
						s.Strategy = "explicit(" + spec.Strategy + ")"
					}
					v.Specs = append(v.Specs, s)
				}
				res.Violation = v
				break runs
			}
		}
	}
	for s := range sigs {
		res.Sigs = append(res.Sigs, s)
	}
	for s := range sigsNT {
		res.SigsNontrivial = append(res.SigsNontrivial, s)
	}
	for p := range pairs {
		res.FnPairs = append(res.FnPairs, p)
	}
	sort.Slice(res.Sigs, func(i, j int) bool { return res.Sigs[i] < res.Sigs[j] })
	sort.Slice(res.SigsNontrivial, func(i, j int) bool { return res.SigsNontrivial[i] < res.SigsNontrivial[j] })
	sort.Slice(res.FnPairs, func(i, j int) bool { return res.FnPairs[i] < res.FnPairs[j] })
	res.UnownedChoices = zzsimrt.MultiReadySelects + zzsimrt.UnorderedMapRanges
	res.Digest = fmt.Sprintf("%x", h.Sum(nil))
	ob, _ := json.Marshal(res)
	if err := os.WriteFile(cmd.Out, ob, 0o644); err != nil {
		die("%v", err)
	}
	// after an aborted run parked goroutines remain: leave without waiting for them
	os.Exit(0)
}

func toEv(sw []zzsimrt.Switch) []c14sim.SwitchEv {
	out := make([]c14sim.SwitchEv, len(sw))
	for i, s := range sw {
		out[i] = c14sim.SwitchEv{Task: s.Task, Kind: s.Kind, Yield: s.Yield, Site: s.Site, Next: s.Next}
		if int(s.Site) < len(zzsimrt.SiteNames) && s.Task >= 0 {
			out[i].SiteName = zzsimrt.SiteNames[s.Site]
		}
	}
	return out
}

type runOut struct {
	rr           *zzsimrt.RunResult
	results      []c14sim.CallResult
	calls        int
	violation    *c14sim.Violation
	sameKeyTasks bool
	sharedTasks  bool
	stuck        string
}

func executeRun(spec *c14sim.RunSpec, pool []*c14sim.Key, recordHot bool) *runOut {
	nt := len(spec.Tasks)
	cfg := &zzsimrt.RunConfig{NTasks: nt, Seed: spec.Seed, PHot: spec.PHot, ColdMean: spec.ColdMean, StickPct: spec.StickPct,
		Victim: spec.Victim, Fairness: 100000, RecordHot: recordHot}
	switch {
	case spec.Explicit != nil:
		cfg.Mode = zzsimrt.ChooseExplicit
		for _, e := range spec.Explicit {
			cfg.Explicit = append(cfg.Explicit, zzsimrt.Switch{Task: e.Task, Kind: e.Kind, Yield: e.Yield, Site: e.Site, Next: e.Next})
		}
		if cfg.Explicit == nil {
			cfg.Explicit = []zzsimrt.Switch{}
		}
	case spec.Strategy == "pct" || spec.Strategy == "sweep":
		cfg.Mode = zzsimrt.ChoosePriority
	case spec.Strategy == "stall":
		cfg.Mode = zzsimrt.ChooseStall
	default:
		cfg.Mode = zzsimrt.ChooseUniform
	}
	if spec.Explicit == nil {
		for i := 0; i < nt && i < len(spec.Prio); i++ {
			cfg.Prio[i] = spec.Prio[i]
		}
		for i := 0; i < nt && i < len(spec.PreemptAt); i++ {
			cfg.PreemptAt[i] = spec.PreemptAt[i]
		}
	}
	// shared map objects of this run
	shared := map[int]*c14sim.Shared{}
	sharedSnap := map[int]string{}
	sharedUsers := map[int]map[int]bool{}
	keyUsers := map[int]map[int]bool{}
	for ti, ts := range spec.Tasks {
		for _, cs := range ts.Calls {
			if keyUsers[cs.Key] == nil {
				keyUsers[cs.Key] = map[int]bool{}
			}
			keyUsers[cs.Key][ti] = true
			if c14sim.IsSharedForm(cs.Form) {
				if shared[cs.Shared] == nil {
					shared[cs.Shared] = c14sim.NewShared(pool[cs.Key], cs.Form == "sharedzero")
					sharedSnap[cs.Shared] = c14sim.MapSnapshot(shared[cs.Shared].Map)
					sharedUsers[cs.Shared] = map[int]bool{}
				}
				sharedUsers[cs.Shared][ti] = true
			}
		}
	}
	out := &runOut{}
	for _, u := range keyUsers {
		if len(u) >= 2 {
			out.sameKeyTasks = true
		}
	}
	for _, u := range sharedUsers {
		if len(u) >= 2 {
			out.sharedTasks = true
		}
	}
	perTask := make([][]c14sim.CallResult, nt)
	hooks := c14sim.Hooks{Before: zzsimrt.CallStart, After: zzsimrt.CallEnd}
	bodies := make([]func(int), nt)
	for ti := range spec.Tasks {
		ts := spec.Tasks[ti]
		bodies[ti] = func(ti int) {
			jr := spec.Seed*0x9e3779b97f4a7c15 + uint64(ti)*0xbf58476d1ce4e5b9 + 1
			mine := c14sim.NewOwn() // this caller's own options value, reused between its calls
			for ci, cs := range ts.Calls {
				// "time passes" between calls (clock jump fault): only matters if the tree has a clock
				jr ^= jr << 13
				jr ^= jr >> 7
				jr ^= jr << 17
				if spec.ClockJumps && jr%3 == 0 {
					zzsimrt.AdvanceClock([]time.Duration{time.Millisecond, 150 * time.Millisecond, 2 * time.Second, 7 * time.Second, time.Minute, time.Hour}[(jr>>8)%6])
				}
				k := pool[cs.Key]
				y0 := zzsimrt.TaskYields()
				sh := shared[cs.Shared]
				if cs.Form == "reused" || cs.Form == "refilled" {
					sh = mine
				}
				r, mv, again := c14sim.DoCallKeep(k, cs.Form, sh, hooks)
				perTask[ti] = append(perTask[ti], c14sim.CallResult{Task: ti, Call: ci, Key: cs.Key, Form: cs.Form, Result: r, MapViolation: mv, Yields: zzsimrt.TaskYields() - y0, Again: again})
			}
		}
	}
	out.rr = zzsimrt.Run(cfg, bodies)
	switch out.rr.Outcome {
	case zzsimrt.OutcomeDeadlock:
		out.violation = &c14sim.Violation{Class: "deadlock", Detail: out.rr.Detail}
		return out
	case zzsimrt.OutcomeStuck:
		out.stuck = out.rr.Detail
		return out
	case zzsimrt.OutcomeBudget:
		out.violation = &c14sim.Violation{Class: "no-progress", Detail: out.rr.Detail + ": a call whose lone reference call terminated did not finish within the step budget"}
		return out
	}
	// (only now: after a completed run everything the tasks wrote happens-before this point)
	for ti := range perTask {
		out.results = append(out.results, perTask[ti]...)
		out.calls += len(perTask[ti])
	}
	// O1 / O3
	for _, cr := range out.results {
		k := pool[cr.Key]
		if cr.MapViolation != "" {
			out.violation = &c14sim.Violation{Class: "caller-map-modified", Detail: cr.MapViolation, Task: cr.Task, Call: cr.Call, Key: cr.Key, Form: cr.Form, Source: k.Source, Params: k.Params}
			return out
		}
		if cr.Again != nil {
			// O1b: what a call returned must not change afterwards (no aliasing of state reused by later calls)
			if now := cr.Again(); now != cr.Result {
				out.violation = &c14sim.Violation{Class: "result-changed-after-return", Detail: "the values a call returned read differently after other calls had run",
					Task: cr.Task, Call: cr.Call, Key: cr.Key, Form: cr.Form, Source: k.Source, Params: k.Params, Expected: cr.Result, Observed: now}
				return out
			}
		}
		if cr.Result != k.Ref {
			out.violation = &c14sim.Violation{Class: "result-differs", Detail: "result of a call differs from the result of a lone first call with the same source and parameters",
				Task: cr.Task, Call: cr.Call, Key: cr.Key, Form: cr.Form, Source: k.Source, Params: k.Params, Expected: k.Ref, Observed: cr.Result}
			return out
		}
	}
	ids := make([]int, 0, len(shared))
	for id := range shared {
		ids = append(ids, id)
	}
	sort.Ints(ids)
	for _, id := range ids {
		now := c14sim.MapSnapshot(shared[id].Map)
		if viaOpts := c14sim.MapSnapshot(shared[id].Opts.Parameters); viaOpts != now {
			now = "options value now holds " + viaOpts
		}
		if now != sharedSnap[id] {
			out.violation = &c14sim.Violation{Class: "caller-map-modified", Detail: fmt.Sprintf("shared parameter map %d at end of run: before %s after %s", id, sharedSnap[id], now)}
			return out
		}
	}
	return out
}

func sampleOf(spec *c14sim.RunSpec, out *runOut, pool []*c14sim.Key) any {
	var calls []string
	for ti, ts := range spec.Tasks {
		for _, cs := range ts.Calls {
			k := pool[cs.Key]
			src := k.Source
			if len(src) > 70 {
				src = src[:70] + "…"
			}
			calls = append(calls, fmt.Sprintf("task %d: %s(%q) opts=%s params=%v", ti, k.API, src, cs.Form, k.Params))
		}
	}
	var sw []string
	for i, s := range out.rr.Switches {
		if i >= 12 {
			sw = append(sw, fmt.Sprintf("… %d more", len(out.rr.Switches)-i))
			break
		}
		name := ""
		if int(s.Site) < len(zzsimrt.SiteNames) && s.Task >= 0 {
			name = zzsimrt.SiteNames[s.Site]
		}
		sw = append(sw, fmt.Sprintf("task %d %s@yield %d (%s) -> task %d", s.Task, zzsimrt.KindNames[s.Kind], s.Yield, name, s.Next))
	}
	return map[string]any{"run": spec.Index, "strategy": spec.Strategy, "calls": calls, "schedule": sw}
}
