// c14ref is the C14 reference process: built from the UNINSTRUMENTED copy, it
// performs exactly one API call — the lone first call of a fresh process — and
// prints the canonical result. One process per key.
package main

import (
	"encoding/json"
	"fmt"
	"io"
	"os"

	"github.com/runreveal/pql/zzverif/c14sim"
)

func main() {
	// the key arrives as JSON on standard input
	b, err := io.ReadAll(os.Stdin)
	if err != nil {
		fmt.Fprintln(os.Stderr, err)
		os.Exit(2)
	}
	k := new(c14sim.Key)
	if err := json.Unmarshal(b, k); err != nil {
		fmt.Fprintln(os.Stderr, err)
		os.Exit(2)
	}
	form := k.OptForms()[0]
	if k.API == "compile" && len(k.Params) > 0 {
		form = "private"
	}
	// (a modified parameter map is oracle O3's business inside the simulation, not part of the reference)
	res, _ := c14sim.DoCall(k, form, nil, c14sim.Hooks{})
	os.Stdout.WriteString(res)
}
