// c14ref is the C14 reference process: built from the UNINSTRUMENTED copy, it
// performs exactly one API call — the lone first call of a fresh process — and
// prints the canonical result. One process per key.
package main

import (
	"encoding/json"
	"fmt"
	"os"
	"strconv"

	"github.com/runreveal/pql/zzverif/c14sim"
)

func main() {
	if len(os.Args) != 3 {
		fmt.Fprintln(os.Stderr, "usage: c14ref <pool.json> <key id>")
		os.Exit(2)
	}
	b, err := os.ReadFile(os.Args[1])
	if err != nil {
		fmt.Fprintln(os.Stderr, err)
		os.Exit(2)
	}
	var pool []*c14sim.Key
	if err := json.Unmarshal(b, &pool); err != nil {
		fmt.Fprintln(os.Stderr, err)
		os.Exit(2)
	}
	id, err := strconv.Atoi(os.Args[2])
	if err != nil || id < 0 || id >= len(pool) {
		fmt.Fprintln(os.Stderr, "bad key id")
		os.Exit(2)
	}
	k := pool[id]
	form := k.OptForms()[0]
	if k.API == "compile" && len(k.Params) > 0 {
		form = "private"
	}
	// (a modified parameter map is oracle O3's business inside the simulation, not part of the reference)
	res, _ := c14sim.DoCall(k, form, nil, c14sim.Hooks{})
	os.Stdout.WriteString(res)
}
