// envscan finds the process-environment variables the tree under test reads (os.Getenv, os.LookupEnv,
// syscall.Getenv with a literal or constant name) and proposes values for each: a few generic ones plus a
// dictionary of the string literals in the declarations that read the variable or call the readers
// (DESIGN.md §4.10). The C14 driver owns the environment of the reference processes it starts: one of the
// two lone first calls of every key runs with a seeded assignment of these variables, and the results must
// still agree — C14 lets a result depend on the source text and the parameter map only.
//
// Purely syntactic (go/parser): no type information is needed, and a false positive costs nothing, because
// setting a variable nobody reads changes nothing.
package main

import (
	"encoding/json"
	"flag"
	"fmt"
	"go/ast"
	"go/parser"
	"go/token"
	"os"
	"path/filepath"
	"sort"
	"strconv"
	"strings"
)

type result struct {
	Vars map[string][]string `json:"vars"`
	// Dynamic: a reader is called with a name that is not a literal or constant, or os.Environ is used; such
	// variables cannot be enumerated (listed for the log only).
	Dynamic []string `json:"dynamic,omitempty"`
}

var generic = []string{"", "1", "0", "true", "2", "4", "16", "all", "on", "-1"}

func main() {
	out := flag.String("out", "envvars.json", "output file")
	flag.Parse()
	res := result{Vars: map[string][]string{}}
	for _, dir := range flag.Args() {
		scanDir(dir, &res)
	}
	b, _ := json.MarshalIndent(res, "", " ")
	if err := os.WriteFile(*out, b, 0o644); err != nil {
		fmt.Fprintln(os.Stderr, err)
		os.Exit(2)
	}
	names := make([]string, 0, len(res.Vars))
	for n := range res.Vars {
		names = append(names, n)
	}
	sort.Strings(names)
	fmt.Printf("envscan: %d environment variable(s) read by the tree under test %v, %d dynamic reader call(s)\n", len(names), names, len(res.Dynamic))
}

func isReader(call *ast.CallExpr) bool {
	sel, ok := call.Fun.(*ast.SelectorExpr)
	if !ok {
		return false
	}
	switch sel.Sel.Name {
	case "Getenv", "LookupEnv":
		return len(call.Args) == 1
	}
	return false
}

func scanDir(dir string, res *result) {
	fset := token.NewFileSet()
	ents, err := os.ReadDir(dir)
	if err != nil {
		fmt.Fprintln(os.Stderr, err)
		os.Exit(2)
	}
	var files []*ast.File
	for _, e := range ents {
		n := e.Name()
		if e.IsDir() || !strings.HasSuffix(n, ".go") || strings.HasSuffix(n, "_test.go") {
			continue
		}
		f, err := parser.ParseFile(fset, filepath.Join(dir, n), nil, 0)
		if err != nil {
			fmt.Fprintln(os.Stderr, err)
			os.Exit(2)
		}
		files = append(files, f)
	}
	// package-level string constants
	consts := map[string]string{}
	for _, f := range files {
		for _, d := range f.Decls {
			gd, ok := d.(*ast.GenDecl)
			if !ok || (gd.Tok != token.CONST && gd.Tok != token.VAR) {
				continue
			}
			for _, s := range gd.Specs {
				vs := s.(*ast.ValueSpec)
				for i, nm := range vs.Names {
					if i < len(vs.Values) {
						if bl, ok := vs.Values[i].(*ast.BasicLit); ok && bl.Kind == token.STRING {
							if v, err := strconv.Unquote(bl.Value); err == nil {
								consts[nm.Name] = v
							}
						}
					}
				}
			}
		}
	}
	// F0: top-level declarations that contain a reader call; the variable names they read
	type decl struct {
		node  ast.Node
		names []string // names this declaration introduces
	}
	var decls []decl
	for _, f := range files {
		for _, d := range f.Decls {
			dd := decl{node: d}
			switch x := d.(type) {
			case *ast.FuncDecl:
				dd.names = []string{x.Name.Name}
			case *ast.GenDecl:
				for _, s := range x.Specs {
					switch y := s.(type) {
					case *ast.ValueSpec:
						for _, nm := range y.Names {
							dd.names = append(dd.names, nm.Name)
						}
					case *ast.TypeSpec:
						dd.names = append(dd.names, y.Name.Name)
					}
				}
			}
			decls = append(decls, dd)
		}
	}
	readsIn := map[int][]string{} // decl index -> variables read there
	for i, dd := range decls {
		ast.Inspect(dd.node, func(n ast.Node) bool {
			switch x := n.(type) {
			case *ast.CallExpr:
				if sel, ok := x.Fun.(*ast.SelectorExpr); ok && sel.Sel.Name == "Environ" && len(x.Args) == 0 {
					res.Dynamic = append(res.Dynamic, fset.Position(x.Pos()).String()+": Environ()")
				}
				if !isReader(x) {
					return true
				}
				name, ok := "", false
				switch a := x.Args[0].(type) {
				case *ast.BasicLit:
					if a.Kind == token.STRING {
						if v, err := strconv.Unquote(a.Value); err == nil {
							name, ok = v, true
						}
					}
				case *ast.Ident:
					name, ok = consts[a.Name]
				}
				if ok && name != "" && !strings.ContainsAny(name, "=\x00") {
					readsIn[i] = append(readsIn[i], name)
				} else {
					// a helper such as func env(name string) string { return os.Getenv(name) }: the names are
					// the literals its callers pass; handled below through the caller dictionary
					readsIn[i] = append(readsIn[i], "")
					res.Dynamic = append(res.Dynamic, fset.Position(x.Pos()).String())
				}
			}
			return true
		})
	}
	if len(readsIn) == 0 {
		return
	}
	// close the set of "reader-related" declarations over callers, two levels up
	related := map[int]bool{}
	relNames := map[string]bool{}
	for i := range readsIn {
		related[i] = true
		for _, n := range decls[i].names {
			relNames[n] = true
		}
	}
	for level := 0; level < 2; level++ {
		add := map[int]bool{}
		for i, dd := range decls {
			if related[i] {
				continue
			}
			ast.Inspect(dd.node, func(n ast.Node) bool {
				if id, ok := n.(*ast.Ident); ok && relNames[id.Name] {
					add[i] = true
				}
				return true
			})
		}
		for i := range add {
			related[i] = true
			for _, n := range decls[i].names {
				relNames[n] = true
			}
		}
	}
	// dictionary: string literals of the related declarations
	dictSet := map[string]bool{}
	for i := range related {
		ast.Inspect(decls[i].node, func(n ast.Node) bool {
			if bl, ok := n.(*ast.BasicLit); ok && bl.Kind == token.STRING {
				if v, err := strconv.Unquote(bl.Value); err == nil && len(v) >= 1 && len(v) <= 32 && !strings.ContainsAny(v, "\n\x00") {
					dictSet[v] = true
				}
			}
			return true
		})
	}
	var dict []string
	for w := range dictSet {
		dict = append(dict, w)
	}
	sort.Strings(dict)
	full := dict
	if len(dict) > 64 {
		dict = dict[:64]
	}
	vars := map[string]bool{}
	dynamicReader := false
	for _, ns := range readsIn {
		for _, n := range ns {
			if n == "" {
				dynamicReader = true
			} else {
				vars[n] = true
			}
		}
	}
	if dynamicReader {
		// names passed to a wrapper: every UPPER_CASE-looking literal of the related declarations
		for _, w := range full {
			if looksLikeEnvName(w) {
				vars[w] = true
			}
		}
	}
	for v := range vars {
		cands := append([]string{}, generic...)
		for _, w := range dict {
			if vars[w] {
				continue // the name of a variable is not a plausible value
			}
			cands = append(cands, w, "all,"+w, w+"=1", w+"=0")
		}
		res.Vars[v] = cands
	}
}

func looksLikeEnvName(s string) bool {
	if len(s) < 3 {
		return false
	}
	for _, c := range s {
		if !(c >= 'A' && c <= 'Z' || c >= '0' && c <= '9' || c == '_') {
			return false
		}
	}
	return s[0] >= 'A' && s[0] <= 'Z'
}
