// c16driver orchestrates the C16 simulation: it fans out simulation processes,
// checks determinism, minimises and replays violations, runs the process-level
// leg on the real binary and writes the evidence file.
package main

import (
	"crypto/sha256"
	"flag"
	"fmt"
	"os"
	"path/filepath"
	"runtime"
	"sort"
	"strings"
	"sync"
	"time"

	"github.com/runreveal/pql/zzverif/c16sim"
	"github.com/runreveal/pql/zzverif/drv"
	"github.com/runreveal/pql/zzverif/prng"
)

const toolVersion = "c16sim/1"

var (
	tier     = flag.String("tier", "quick", "quick | thorough")
	seedFlag = flag.Uint64("seed", 0, "base seed (VERIF_SEED)")
	simBin   = flag.String("bin", "", "cmd/pql test binary with the simulation harness")
	pqlBin   = flag.String("pql", "", "real pql binary (process-level leg)")
	raceBin  = flag.String("racebin", "", "cmd/pql test binary with the simulation harness, built with -race")
	work     = flag.String("work", "", "scratch directory")
	verif    = flag.String("verif", "/verif", "verification directory")
	replay   = flag.String("replay", "", "replay file to re-execute")
	multiOK  = flag.Bool("multi", true, "multiReadCloser sub-leg was built")
	schedBin = flag.String("schedbin", "", "race-enabled test binary of the instrumented cmd/pql (scheduled leg); empty = leg not run")
	schedWhy = flag.String("schedwhy", "cmd/pql starts no goroutines: there is no schedule to explore", "why the scheduled leg is not run")
	inproc   = flag.Bool("inproc", true, "the in-process harness (the template calling run) could be built")
	noProbe  = flag.Bool("no-probe", false, "skip the invocation-independence probe (to exercise the fallback that repeats the exploration)")
	selftest = flag.Bool("selftest-determinism", false, "run the determinism self-test instead of the check")
	budgetS  = flag.Int("budget", 0, "thorough tier wall-clock budget in seconds (VERIF_BUDGET_S)")
	noEvid   = flag.Bool("no-evidence", false, "do not write the evidence file (self-tests)")
	par      = flag.Int("par", 0, "parallel processes (default: all cores)")
)

func fatal(format string, args ...any) {
	fmt.Fprintf(os.Stderr, "c16driver: "+format+"\n", args...)
	os.Exit(drv.ExitInconclusive)
}

var cmdSeq int

func simJob(cmd c16sim.Command, gomaxprocs int, timeout time.Duration) (*drv.Job, string) {
	return simJobBin(curBin(), cmd, gomaxprocs, timeout)
}

// useSched: replay and minimisation of a violation found in the scheduled leg need that leg's binary.
var useSched bool

func curBin() string {
	if useSched {
		return *schedBin
	}
	return *simBin
}

var cmdMu sync.Mutex

func simJobBin(bin string, cmd c16sim.Command, gomaxprocs int, timeout time.Duration) (*drv.Job, string) {
	cmdMu.Lock()
	defer cmdMu.Unlock()
	cmdSeq++
	cmdPath := filepath.Join(*work, fmt.Sprintf("cmd-%d.json", cmdSeq))
	if cmd.Out == "" {
		cmd.Out = filepath.Join(*work, fmt.Sprintf("out-%d.json", cmdSeq))
	}
	// (a candidate of the minimiser under a seeded schedule must meet the simulator in the state a fresh
	// process has: goroutines left behind by earlier candidates would take part in the schedule)
	cmd.Isolate = isolate || (useSched && cmd.Mode == "minimise")
	if err := drv.WriteJSON(cmdPath, cmd); err != nil {
		fatal("%v", err)
	}
	env := []string{"ZZSIM_CMD=" + cmdPath}
	if gomaxprocs > 0 {
		env = append(env, fmt.Sprintf("GOMAXPROCS=%d", gomaxprocs))
	}
	return &drv.Job{
		Name:    cmdPath,
		Argv:    []string{bin, "-test.run", "^TestZZSimC16$", "-test.timeout", "0"},
		Env:     env,
		Dir:     *work,
		Timeout: timeout,
	}, cmd.Out
}

func procSeed(base uint64, i int) uint64 { return prng.Derive(base, "c16-process", uint64(i)) }

type agg struct {
	procs, scripts, runs, strict, fault, sweepScripts, sweepRuns, multi, long, steps, bytes int
	sinkEq, sinkGt, violationRuns                                                           int
	faultKinds, probes, stmtKinds                                                           map[string]int
	trans                                                                                   map[string]bool
	violations                                                                              []c16sim.ViolationRec
	inconclusive                                                                            []string
	samples                                                                                 []any
	digests                                                                                 map[uint64]string
	workerWallMs                                                                            int64
}

func newAgg() *agg {
	return &agg{faultKinds: map[string]int{}, probes: map[string]int{}, stmtKinds: map[string]int{}, trans: map[string]bool{}, digests: map[uint64]string{}}
}

func (a *agg) add(r *c16sim.WorkerResult) {
	a.procs++
	a.scripts += r.Scripts
	a.runs += r.Runs
	a.strict += r.RunsStrict
	a.fault += r.RunsFault
	a.sweepScripts += r.SweepScripts
	a.sweepRuns += r.SweepRuns
	a.multi += r.MultiRuns
	a.long += r.LongLineRuns
	a.steps += r.Steps
	a.bytes += r.BytesFed
	a.sinkEq += r.SinkEqFail
	a.sinkGt += r.SinkGtFail
	a.violationRuns += r.ViolationRuns
	a.workerWallMs += r.WallMs
	for k, v := range r.FaultKinds {
		a.faultKinds[k] += v
	}
	for k, v := range r.Probes {
		a.probes[k] += v
	}
	for k, v := range r.StmtKinds {
		a.stmtKinds[k] += v
	}
	for _, t := range r.Transitions {
		a.trans[t] = true
	}
	a.violations = append(a.violations, r.Violations...)
	a.inconclusive = append(a.inconclusive, r.Inconclusive...)
	if len(a.samples) < 4 {
		a.samples = append(a.samples, r.Samples...)
	}
	a.digests[r.Seed] = r.Digest
}

// runWorkers runs one wave of simulation processes and folds their results into a.
func runWorkers(a *agg, cfgs []c16sim.WorkerConfig, parallel int, gomaxprocs int, timeout time.Duration) {
	var jobs []*drv.Job
	outs := map[*drv.Job]string{}
	for _, c := range cfgs {
		c.MultiOK = *multiOK
		j, out := simJob(c16sim.Command{Mode: "worker", Worker: c}, gomaxprocs, timeout)
		jobs = append(jobs, j)
		outs[j] = out
	}
	drv.RunPool(jobs, parallel, func(j *drv.Job) {
		if j.TimedOut {
			fatal("WATCHDOG: simulation process %s made no progress within %v (a call inside run did not return: C12 territory, inconclusive)\n%s", j.Name, j.Timeout, tail(j.Stderr))
		}
		if j.ExitCode != 0 {
			fatal("simulation process %s exited with %d\n%s\n%s", j.Name, j.ExitCode, tail(j.Stdout), tail(j.Stderr))
		}
		var r c16sim.WorkerResult
		if err := drv.ReadJSON(outs[j], &r); err != nil {
			fatal("reading %s: %v", outs[j], err)
		}
		a.add(&r)
		os.Remove(outs[j])
		os.Remove(j.Name)
	}, nil)
}

func tail(b []byte) string {
	s := string(b)
	if len(s) > 3000 {
		s = "…" + s[len(s)-3000:]
	}
	return s
}

// isolate: every execution of the tool's run function happens in a process of its own (c16sim/exec.go).
var isolate bool

// suspectCarry: a violation seen in a process that had executed other cases before did not reproduce in a
// process of its own.
var suspectCarry bool

// toolNondeterministic: the probe saw the same case give two outcomes in two processes of its own.
var toolNondeterministic bool

func quickCfg(seed uint64) c16sim.WorkerConfig {
	if isolate {
		// a process per execution costs milliseconds instead of microseconds: a quarter of the scripts
		return c16sim.WorkerConfig{Seed: seed, Scripts: 65, SweepFirst: 4, SweepEvery: 40, Benign: 5, Faulty: 5, MaxSweepLen: 1000}
	}
	return c16sim.WorkerConfig{Seed: seed, Scripts: 260, SweepFirst: 10, SweepEvery: 40, Benign: 5, Faulty: 5, MaxSweepLen: 1500}
}

func thoroughCfg(seed uint64, budgetMs int) c16sim.WorkerConfig {
	return c16sim.WorkerConfig{Seed: seed, Scripts: 0, BudgetMs: budgetMs, SweepFirst: 20, SweepEvery: 15, Benign: 8, Faulty: 8, MaxSweepLen: 2500}
}

func main() {
	flag.Parse()
	if (*simBin == "" && *inproc) || *work == "" {
		fatal("-bin and -work are required")
	}
	parallel := *par
	if parallel <= 0 {
		parallel = runtime.NumCPU()
	}
	if *replay != "" {
		os.Exit(doReplay(*replay))
	}
	if *selftest {
		os.Exit(doSelftestDeterminism(parallel))
	}
	if explore(parallel) {
		explore(parallel)
	}
}

// explore is one pass of the check; it returns true (instead of exiting) if the pass has to be repeated
// with every execution in a process of its own.
func explore(parallel int) bool {
	start := time.Now()
	base := *seedFlag
	a := newAgg()
	if !*inproc {
		fmt.Println("note: the in-process harness could not be built against this tree (cmd/pql no longer has a function run(context.Context, io.Writer, io.Reader, func(error)) error); exploring with the real binary only: no simulated reader, so no chunking, read-error or cut injection — files, standard input, directories and missing files only (see evidence)")
		return exploreBinaryOnly(parallel, base, start)
	}
	if !isolate && !*noProbe {
		// Does the outcome of a case depend on what the same process executed before it? The tool runs once
		// per process; the simulation runs it thousands of times per process and must not blame the tool for
		// state it keeps for the one translation of its life.
		j, out := simJob(c16sim.Command{Mode: "probe", Worker: c16sim.WorkerConfig{Seed: prng.Derive(base, "c16-probe", 0), MultiOK: *multiOK}}, 0, 10*time.Minute)
		drv.RunJob(j)
		var pr c16sim.ProbeResult
		if j.ExitCode != 0 || j.TimedOut || drv.ReadJSON(out, &pr) != nil {
			fmt.Printf("%s\n%s\n", tail(j.Stdout), tail(j.Stderr))
			fatal("the invocation-independence probe did not complete")
		}
		toolNondeterministic = pr.Nondeterministic
		if pr.Nondeterministic {
			fmt.Println("note: the tool is not deterministic: the same case, executed twice in processes of its own, gave two outcomes (goroutines of its own?)")
		}
		if pr.StateCarried {
			isolate = true
			fmt.Printf("note: cmd/pql keeps state between calls of run in one process (%s). The command-line tool calls run once per process, so this is not a violation; every simulated execution now happens in a process of its own (slower, fewer scripts).\n", pr.Detail)
		}
	}
	fmt.Printf("C16 %s tier, VERIF_SEED=%d, %d parallel simulation processes\n", *tier, base, parallel)

	if old, _ := filepath.Glob(filepath.Join(*verif, "replays", fmt.Sprintf("C16-%d-*.json", base))); len(old) > 0 {
		for _, f := range old {
			os.Remove(f)
		}
	}
	var detCfgs []c16sim.WorkerConfig
	bases := []uint64{base}
	switch *tier {
	case "quick":
		var cfgs []c16sim.WorkerConfig
		for i := 0; i < 32; i++ {
			cfgs = append(cfgs, quickCfg(procSeed(base, i)))
		}
		detCfgs = cfgs[:3]
		runWorkers(a, cfgs, parallel, 0, 10*time.Minute)
	case "thorough":
		b := *budgetS
		if b <= 0 {
			b = 1500
		}
		// several base seeds, each a wave of time-boxed processes
		waves := 4
		bases = nil
		for w := 0; w < waves; w++ {
			wb := prng.Derive(base, "c16-thorough-wave", uint64(w))
			if w == 0 {
				wb = base
			}
			bases = append(bases, wb)
			var cfgs []c16sim.WorkerConfig
			for i := 0; i < parallel; i++ {
				cfgs = append(cfgs, thoroughCfg(procSeed(wb, i), b*1000/waves))
			}
			runWorkers(a, cfgs, parallel, 0, time.Duration(b/waves+600)*time.Second)
			if len(a.violations) > 0 {
				break
			}
		}
		for i := 0; i < 3; i++ {
			detCfgs = append(detCfgs, quickCfg(procSeed(base, 1000+i)))
		}
	default:
		fatal("unknown tier %q", *tier)
	}

	// Reduced determinism obligation (DESIGN.md §3.4): re-execute 3 process seeds and compare event-log digests.
	det := newAgg()
	if *tier == "thorough" {
		first := newAgg()
		runWorkers(first, detCfgs, parallel, 0, 10*time.Minute)
		for k, v := range first.digests {
			a.digests[k] = v
		}
		a.violations = append(a.violations, first.violations...)
	}
	runWorkers(det, detCfgs, parallel, 1, 10*time.Minute)
	a.violations = append(a.violations, det.violations...)
	for s, d := range det.digests {
		if a.digests[s] == d || len(a.violations) > 0 {
			// (with violations in hand they are reported; a tool that misbehaves may well do so irreproducibly)
			continue
		}
		// A wall-clock watchdog expiring on an overloaded machine also shows up here. Repeat the two
		// executions of that seed one after the other before calling it nondeterminism.
		fmt.Printf("note: process seed %d: event-log digests %s and %s differ; repeating both executions (inconclusive cases so far: %v %v)\n", s, a.digests[s], d, a.inconclusive, det.inconclusive)
		var cfg c16sim.WorkerConfig
		for _, c := range detCfgs {
			if c.Seed == s {
				cfg = c
			}
		}
		r1, r2 := newAgg(), newAgg()
		runWorkers(r1, []c16sim.WorkerConfig{cfg}, 1, 0, 10*time.Minute)
		runWorkers(r2, []c16sim.WorkerConfig{cfg}, 1, 1, 10*time.Minute)
		if r1.digests[s] != r2.digests[s] || r1.digests[s] == "" {
			fmt.Printf("HARNESS-NONDETERMINISM: process seed %d produced event-log digest %s, then %s\n", s, r1.digests[s], r2.digests[s])
			os.Exit(drv.ExitInconclusive)
		}
		a.violations = append(a.violations, r1.violations...)
	}

	// Race leg: a few simulation processes under the race detector (a tool that starts goroutines of its own
	// must not make its output depend on their schedule).
	races := runRaceLeg(base, parallel)

	// Scheduled leg: if the tool starts goroutines, their interleaving is a seeded choice too.
	sl := runSchedLeg(base, parallel)
	if sl.ran {
		cls := map[string]int{}
		for _, v := range sl.violations {
			cls[v.Verdict.Class]++
		}
		fmt.Printf("scheduled leg: cmd/pql starts goroutines; %d executions of run under seeded schedules of the instrumented tool; violations by class (first few per process): %v, race reports: %d\n", sl.runs, cls, len(sl.races))
		races = append(races, sl.races...)
		a.inconclusive = append(a.inconclusive, sl.incon...)
	} else if *schedWhy != "" && !strings.HasPrefix(*schedWhy, "cmd/pql starts no goroutines") {
		fmt.Println("note: scheduled leg not run:", *schedWhy)
	}
	schedLeg = sl

	// Process-level leg on the real binary.
	pl := runProcLevel(base, parallel)

	// Violations: minimise, verify replay, report.
	findings, err := drv.LoadFindings(filepath.Join(*verif, "known_findings.txt"))
	if err != nil {
		fatal("%v", err)
	}
	reported := 0
	known := 0
	all := append([]c16sim.ViolationRec{}, a.violations...)
	all = append(all, sl.violations...)
	sort.SliceStable(all, func(i, j int) bool {
		// a violation found under a seeded schedule replays exactly: prefer it as the witness of its class
		if si, sj := all[i].Case.Sched != 0, all[j].Case.Sched != 0; si != sj {
			return si
		}
		return len(all[i].Case.Input) < len(all[j].Case.Input)
	})
	seenClass := map[string]bool{}
	var lines []string
	n := 0
	for _, v := range all {
		if seenClass[v.Verdict.Class] {
			continue
		}
		seenClass[v.Verdict.Class] = true
		rf := c16sim.ReplayFile{Tool: toolVersion, Property: "C16", Leg: "in-process", Class: v.Verdict.Class, BaseSeed: base, Violation: v}
		useSched = v.Case.Sched != 0
		if useSched {
			rf.Leg = "in-process-sched"
		}
		final := finalizeReplay(rf)
		useSched = false
		key := caseKey(final.Violation.Case)
		if f := drv.MatchFinding(findings, "C16", final.Class, key); f != nil {
			fmt.Printf("KNOWN-FINDING: property=C16 class=%s key=%s %s\n", final.Class, key, f.Text)
			known++
			continue
		}
		path := filepath.Join(*verif, "replays", fmt.Sprintf("C16-%d-%d.json", base, n))
		n++
		os.MkdirAll(filepath.Dir(path), 0o755)
		if err := drv.WriteJSON(path, final); err != nil {
			fatal("%v", err)
		}
		lines = append(lines, fmt.Sprintf("VIOLATION property=C16 replay=%s", path))
		fmt.Printf("  class=%s regime=%s key=%s replay_verified=%v\n  %s\n  input=%q\n", final.Class, final.Violation.Verdict.Regime, key, final.ReplayVerified, final.Violation.Verdict.Detail, clipS(string(final.Violation.Case.Input)))
		reported++
	}
	if suspectCarry && !isolate {
		isolate = true
		suspectCarry = false
		fmt.Println("note: a violation observed after other executions in the same process did not reproduce in a process of its own: the tool may keep state between calls of run, which the command-line tool (one call per process) never exercises. Discarding the in-process results of this pass and repeating the exploration with every execution in a process of its own.")
		return true
	}
	for _, rv := range races {
		path := filepath.Join(*verif, "replays", fmt.Sprintf("C16-%d-%d.json", base, n))
		n++
		os.MkdirAll(filepath.Dir(path), 0o755)
		if err := drv.WriteJSON(path, rv); err != nil {
			fatal("%v", err)
		}
		lines = append(lines, fmt.Sprintf("VIOLATION property=C16 replay=%s", path))
		fmt.Printf("  class=%s (race detector, in-process leg, worker seed %d)\n  %s\n", rv.Class, rv.Worker.Seed, rv.Summary)
		reported++
		break
	}
	for _, pv := range pl.violations {
		if seenClass["proc:"+pv.Class] {
			continue
		}
		seenClass["proc:"+pv.Class] = true
		key := procKey(pv.Proc)
		if f := drv.MatchFinding(findings, "C16", pv.Class, key); f != nil {
			fmt.Printf("KNOWN-FINDING: property=C16 class=%s key=%s %s\n", pv.Class, key, f.Text)
			known++
			continue
		}
		path := filepath.Join(*verif, "replays", fmt.Sprintf("C16-%d-%d.json", base, n))
		n++
		os.MkdirAll(filepath.Dir(path), 0o755)
		if err := drv.WriteJSON(path, pv); err != nil {
			fatal("%v", err)
		}
		lines = append(lines, fmt.Sprintf("VIOLATION property=C16 replay=%s", path))
		fmt.Printf("  process-level class=%s key=%s argv=%q\n  %s\n", pv.Class, key, pv.Argv, pv.Verdict.Detail)
		reported++
	}

	wall := time.Since(start).Seconds()
	if !*noEvid {
		writeEvidence(a, pl, base, bases, wall, reported, known, parallel)
	}
	fmt.Printf("C16: %d simulation processes, %d scripts, %d simulated runs (%d fault-free, %d fault-injecting, %d in exhaustive single-fault sweeps of %d scripts), %d distinct abstract transitions, %d process-level executions, %.1f s\n",
		a.procs, a.scripts, a.runs, a.strict, a.fault, a.sweepRuns, a.sweepScripts, len(a.trans), pl.execs, wall)
	if len(a.inconclusive) > 0 || len(pl.inconclusive) > 0 {
		for _, s := range append(a.inconclusive, pl.inconclusive...) {
			fmt.Println("INCONCLUSIVE:", s)
		}
		if reported == 0 {
			os.Exit(drv.ExitInconclusive)
		}
	}
	if reported > 0 {
		for _, l := range lines {
			fmt.Println(l)
		}
		os.Exit(drv.ExitViolation)
	}
	fmt.Println("C16 held on everything explored")
	return false
}

// exploreBinaryOnly is the degraded C16 check for a tree whose run function the harness cannot call.
func exploreBinaryOnly(parallel int, base uint64, start time.Time) bool {
	fmt.Printf("C16 %s tier (process-level leg only), VERIF_SEED=%d\n", *tier, base)
	if old, _ := filepath.Glob(filepath.Join(*verif, "replays", fmt.Sprintf("C16-%d-*.json", base))); len(old) > 0 {
		for _, f := range old {
			os.Remove(f)
		}
	}
	findings, err := drv.LoadFindings(filepath.Join(*verif, "known_findings.txt"))
	if err != nil {
		fatal("%v", err)
	}
	pl := runProcLevel(base, parallel)
	reported, known, n := 0, 0, 0
	seenClass := map[string]bool{}
	var lines []string
	for _, pv := range pl.violations {
		if seenClass[pv.Class] {
			continue
		}
		seenClass[pv.Class] = true
		key := procKey(pv.Proc)
		if f := drv.MatchFinding(findings, "C16", pv.Class, key); f != nil {
			fmt.Printf("KNOWN-FINDING: property=C16 class=%s key=%s %s\n", pv.Class, key, f.Text)
			known++
			continue
		}
		path := filepath.Join(*verif, "replays", fmt.Sprintf("C16-%d-%d.json", base, n))
		n++
		os.MkdirAll(filepath.Dir(path), 0o755)
		if err := drv.WriteJSON(path, pv); err != nil {
			fatal("%v", err)
		}
		lines = append(lines, fmt.Sprintf("VIOLATION property=C16 replay=%s", path))
		fmt.Printf("  process-level class=%s key=%s argv=%q\n  %s\n", pv.Class, key, pv.Argv, pv.Verdict.Detail)
		reported++
	}
	wall := time.Since(start).Seconds()
	a := newAgg()
	if !*noEvid {
		writeEvidence(a, pl, base, []uint64{base}, wall, reported, known, parallel)
	}
	fmt.Printf("C16: %d process-level executions of the real binary, %.1f s\n", pl.execs, wall)
	if len(pl.inconclusive) > 0 {
		for _, s := range pl.inconclusive {
			fmt.Println("INCONCLUSIVE:", s)
		}
		if reported == 0 {
			os.Exit(drv.ExitInconclusive)
		}
	}
	if reported > 0 {
		for _, l := range lines {
			fmt.Println(l)
		}
		os.Exit(drv.ExitViolation)
	}
	fmt.Println("C16 held on everything explored")
	return false
}

func schedLegNote() string {
	if schedLeg == nil || !schedLeg.ran {
		return "not run: " + *schedWhy
	}
	return fmt.Sprintf("cmd/pql instrumented and run() executed as a task of the seeded scheduler: %d executions, %d violations, %d race reports", schedLeg.runs, len(schedLeg.violations), len(schedLeg.races))
}

func clipS(s string) string {
	if len(s) > 400 {
		return s[:300] + "…" + s[len(s)-80:]
	}
	return s
}

func caseKey(c c16sim.Case) string {
	h := sha256.New()
	h.Write(c.Input)
	fmt.Fprintf(h, "|%v|%v", c.Files, c.Multi)
	return fmt.Sprintf("%x", h.Sum(nil))[:16]
}

func procKey(pc *c16sim.ProcCase) string {
	h := sha256.New()
	fmt.Fprintf(h, "%v|%s|%d|%s|%s|%d", pc.FilesB64, pc.Mode, pc.DashAt, pc.Out, pc.Fault, pc.FaultAt)
	if len(pc.StdinPipe) > 0 {
		fmt.Fprintf(h, "|pipe%v", pc.StdinPipe)
	}
	return fmt.Sprintf("%x", h.Sum(nil))[:16]
}

// finalizeReplay minimises in a fresh process and verifies the replay in another one.
func finalizeReplay(rf c16sim.ReplayFile) c16sim.ReplayFile {
	orig := rf
	inPath := filepath.Join(*work, "viol-in.json")
	if err := drv.WriteJSON(inPath, rf); err != nil {
		fatal("%v", err)
	}
	j, out := simJob(c16sim.Command{Mode: "minimise", In: inPath}, 1, 10*time.Minute)
	drv.RunJob(j)
	var min c16sim.ReplayFile
	if j.ExitCode == 0 && !j.TimedOut && drv.ReadJSON(out, &min) == nil && min.Violation.Verdict.Class == rf.Class {
		if replayOnce(min) {
			min.ReplayVerified = true
			return min
		}
	}
	// fall back to the unminimised case
	orig.ReplayVerified = replayOnce(orig)
	for attempt := 0; toolNondeterministic && !orig.ReplayVerified && attempt < 4; attempt++ {
		orig.ReplayVerified = replayOnce(orig)
	}
	if !orig.ReplayVerified {
		if !isolate && !toolNondeterministic {
			suspectCarry = true
		} else {
			fmt.Println("note: an observed violation did not reproduce on replay (the tool is not deterministic); reporting it unminimised, replay_verified=false")
		}
	}
	return orig
}

func replayOnce(rf c16sim.ReplayFile) bool {
	inPath := filepath.Join(*work, "replay-in.json")
	if err := drv.WriteJSON(inPath, rf); err != nil {
		fatal("%v", err)
	}
	j, out := simJob(c16sim.Command{Mode: "replay", In: inPath}, 1, 5*time.Minute)
	drv.RunJob(j)
	if j.ExitCode != 0 || j.TimedOut {
		return false
	}
	var rr c16sim.ReplayResult
	if err := drv.ReadJSON(out, &rr); err != nil {
		return false
	}
	return rr.Reproduced
}

func doReplay(path string) int {
	var probe struct {
		Leg string `json:"leg"`
	}
	if err := drv.ReadJSON(path, &probe); err != nil {
		fatal("%v", err)
	}
	if probe.Leg == "in-process-race" || probe.Leg == "in-process-sched-race" {
		var rv raceViolation
		if err := drv.ReadJSON(path, &rv); err != nil {
			fatal("%v", err)
		}
		bin := *raceBin
		if probe.Leg == "in-process-sched-race" {
			bin = *schedBin
			if bin == "" {
				fmt.Println("the tree under test has no goroutines in cmd/pql any more (no scheduled leg): not reproduced")
				return drv.ExitHeld
			}
		}
		for attempt := 0; attempt < 3; attempt++ {
			if got, _ := runAltWorker(bin, probe.Leg, rv.Worker); got != nil {
				fmt.Printf("replayed worker seed %d under the race detector: %s\nVIOLATION property=C16 replay=%s\n", rv.Worker.Seed, got.Summary, path)
				return drv.ExitViolation
			}
		}
		fmt.Println("not reproduced")
		return drv.ExitHeld
	}
	if probe.Leg == "process-level" {
		var pv procViolation
		if err := drv.ReadJSON(path, &pv); err != nil {
			fatal("%v", err)
		}
		v, o, argv, err := judgeProc(pv.Proc, filepath.Join(*work, "replay-proc"))
		if err != nil {
			fatal("%v", err)
		}
		fmt.Printf("replayed process-level case: argv=%q exit=%q stdout=%q reports=%d\n", argv, o.RetErr, clipS(o.Stdout), o.Sink)
		if v.Class == pv.Class {
			fmt.Printf("  class=%s %s\nVIOLATION property=C16 replay=%s\n", v.Class, v.Detail, path)
			return drv.ExitViolation
		}
		fmt.Printf("not reproduced (verdict now: class=%q regime=%s)\n", v.Class, v.Regime)
		return drv.ExitHeld
	}
	var rf c16sim.ReplayFile
	if err := drv.ReadJSON(path, &rf); err != nil {
		fatal("%v", err)
	}
	if rf.Leg == "in-process-sched" {
		if *schedBin == "" {
			fmt.Println("the tree under test has no goroutines in cmd/pql any more (no scheduled leg): not reproduced")
			return drv.ExitHeld
		}
		useSched = true
	}
	var rr c16sim.ReplayResult
	// (a tool with goroutines of its own outside the scheduled leg need not misbehave on every execution)
	for attempt := 0; attempt < 5 && !rr.Reproduced; attempt++ {
		j, out := simJob(c16sim.Command{Mode: "replay", In: path}, 1, 5*time.Minute)
		drv.RunJob(j)
		if j.ExitCode != 0 || j.TimedOut {
			fatal("replay process failed: exit %d timed out %v\n%s", j.ExitCode, j.TimedOut, tail(j.Stderr))
		}
		if err := drv.ReadJSON(out, &rr); err != nil {
			fatal("%v", err)
		}
		if attempt > 0 && rr.Reproduced {
			fmt.Printf("note: reproduced on attempt %d of 5: the tool is not deterministic\n", attempt+1)
		}
	}
	fmt.Printf("replayed: input=%q\n  stdout=%q\n  reports=%d run returned %q\n", clipS(string(rf.Violation.Case.Input)), clipS(rr.Outcome.Stdout), rr.Outcome.Sink, rr.Outcome.RetErr)
	if rr.Reproduced {
		fmt.Printf("  class=%s regime=%s %s\nVIOLATION property=C16 replay=%s\n", rr.Verdict.Class, rr.Verdict.Regime, rr.Verdict.Detail, path)
		return drv.ExitViolation
	}
	fmt.Printf("not reproduced (verdict now: class=%q regime=%s)\n", rr.Verdict.Class, rr.Verdict.Regime)
	return drv.ExitHeld
}

// doSelftestDeterminism: >= 40 process seeds, each executed 3 times at GOMAXPROCS 1, 4, 16,
// with 1 and 16 processes side by side; full event logs must be byte-identical.
func doSelftestDeterminism(parallel int) int {
	base := *seedFlag
	const nSeeds = 40
	type key struct {
		seed uint64
		rep  int
	}
	logs := map[key]string{}
	mk := func(rep int) []c16sim.WorkerConfig {
		var cfgs []c16sim.WorkerConfig
		for i := 0; i < nSeeds; i++ {
			c := quickCfg(procSeed(base, i))
			c.Scripts = 60
			c.SweepFirst = 3
			c.LogPath = filepath.Join(*work, fmt.Sprintf("evlog-%d-%d.txt", i, rep))
			logs[key{c.Seed, rep}] = c.LogPath
			cfgs = append(cfgs, c)
		}
		return cfgs
	}
	a0, a1, a2 := newAgg(), newAgg(), newAgg()
	runWorkers(a0, mk(0), 1, 1, 20*time.Minute) // one at a time, GOMAXPROCS=1
	runWorkers(a1, mk(1), parallel, 4, 20*time.Minute)
	runWorkers(a2, mk(2), parallel, 16, 20*time.Minute)
	bad := 0
	events := 0
	for i := 0; i < nSeeds; i++ {
		s := procSeed(base, i)
		b0, _ := os.ReadFile(logs[key{s, 0}])
		b1, _ := os.ReadFile(logs[key{s, 1}])
		b2, _ := os.ReadFile(logs[key{s, 2}])
		events += strings.Count(string(b0), "\n")
		if len(b0) == 0 || string(b0) != string(b1) || string(b0) != string(b2) || a0.digests[s] != a1.digests[s] || a0.digests[s] != a2.digests[s] {
			fmt.Printf("HARNESS-NONDETERMINISM: process seed %d: event logs differ between repetitions\n", s)
			bad++
		}
		for r := 0; r < 3; r++ {
			os.Remove(logs[key{s, r}])
		}
	}
	fmt.Printf("C16 determinism self-test: %d process seeds x 3 executions (GOMAXPROCS 1/4/16, 1 and %d processes side by side), %d events per repetition compared byte for byte, %d divergent\n", nSeeds, parallel, events, bad)
	if bad > 0 {
		return drv.ExitInconclusive
	}
	return 0
}

func writeEvidence(a *agg, pl *procLevelResult, base uint64, bases []uint64, wall float64, reported, known, parallel int) {
	trans := make([]string, 0, len(a.trans))
	for t := range a.trans {
		trans = append(trans, t)
	}
	sort.Strings(trans)
	nontrivial := 0
	for _, t := range trans {
		// trivial: nothing pending, nothing completed, clean reader
		if !(strings.HasPrefix(t, "none/") && strings.Contains(t, "--done=0/clean-->")) {
			nontrivial++
		}
	}
	reach := []string{}
	for _, p := range []string{
		"prelude-in-force-at-unterminated-final-query-using-a-bound-name", "failed-let-followed-by-use-of-its-name",
		"failure-then-success-then-end-of-input", "two-or-more-statements-completed-by-one-line",
		"statement-spanning-3-or-more-lines", "D1-empty-statement-between-semicolons", "D2-unterminated-trailing-let",
		"script-with-line-over-64KiB", "query-whose-sql-depends-on-the-prelude", "script-input-over-4KiB", "script-output-over-4KiB",
	} {
		if a.probes[p] == 0 {
			reach = append(reach, "probe never hit: "+p)
		}
	}
	samples := a.samples
	if len(samples) == 0 {
		samples = []any{"(no sample recorded)"}
	}
	if len(trans) > 0 {
		samples = append(samples, map[string]any{"abstract_transitions_sample": trans[:min(len(trans), 12)]})
	}
	perHour := func(n int) int { return int(float64(n) / wall * 3600) }
	seedList := []int64{}
	for _, b := range bases {
		seedList = append(seedList, int64(b))
	}
	ev := drv.Evidence{
		PropertyID: "C16", Tier: *tier, Seed: int64(base), Level: "exploration", WallS: wall, Violations: reported,
		Coverage: map[string]any{
			"evaluations":         a.runs + pl.execs,
			"distinct_nontrivial": nontrivial,
			"rule": "one evaluation = one execution of the real cmd/pql run() on a seeded script under a seeded simulated reader (or of the real binary, process-level leg). " +
				"distinct_nontrivial = distinct abstract transitions (model state before a line: pending-text class/prelude size class/failure flag) x (statements completed by the line and their kinds / strongest reader behaviour inside the line: clean, cut, empty-read, file-boundary, error) x (state after), " +
				"not counting the trivial transition 'nothing pending, nothing completed, clean read'",
			"samples":                            samples,
			"exhaustive":                         false,
			"base_seeds":                         seedList,
			"simulation_processes":               a.procs,
			"scripts":                            a.scripts,
			"runs_in_process":                    a.runs,
			"runs_fault_free":                    a.strict,
			"runs_fault_injecting":               a.fault,
			"single_fault_sweep_scripts":         a.sweepScripts,
			"single_fault_sweep_runs":            a.sweepRuns,
			"multi_file_runs":                    a.multi,
			"over_long_line_runs":                a.long,
			"process_level_executions":           pl.execs,
			"runs_under_race_detector":           raceRuns,
			"logical_steps_read_write_calls":     a.steps,
			"simulated_time":                     "none: the code has no clock, timer or deadline (DESIGN.md §1); logical steps are Read/Write calls",
			"bytes_fed":                          a.bytes,
			"runs_per_hour":                      perHour(a.runs),
			"scripts_per_hour":                   perHour(a.scripts),
			"process_seeds_per_hour":             perHour(a.procs),
			"fault_kinds_fired":                  a.faultKinds,
			"process_level_kinds":                pl.kinds,
			"probes":                             a.probes,
			"statement_kinds_generated":          a.stmtKinds,
			"distinct_abstract_transitions":      len(trans),
			"reach_warnings":                     reach,
			"runs_where_reports_equal_failures":  a.sinkEq,
			"runs_where_reports_exceed_failures": a.sinkGt,
			"violating_runs":                     a.violationRuns,
			"known_findings_matched":             known,
			"determinism_recheck":                "3 process seeds re-executed at GOMAXPROCS=1, event-log digests identical",
			"multi_read_closer_leg_built":        *multiOK,
			"in_process_harness_built":           *inproc,
			"scheduled_leg":                      schedLegNote(),
			"one_process_per_execution":          isolate,
			"invocation_independence_probe":      map[bool]string{false: "the outcome of a case did not depend on what the same process had executed before it: many executions per simulation process", true: "cmd/pql keeps state between calls of run in one process: every execution ran in a process of its own"}[isolate],
			"real_components":                    []string{"cmd/pql run()", "cmd/pql multiReadCloser", "bufio.Scanner", "pql", "pql/parser", "process-level leg: the whole binary, kernel file I/O"},
			"stubbed_components":                 []string{"io.Reader behind run (simulated, seeded)", "io.Writer (recording, never faulted)", "error sink (counting)"},
			"parallel_processes":                 parallel,
			"go_version":                         runtime.Version(),
			"tool":                               toolVersion,
		},
		Assumptions: []string{
			"reference model: statements cut at the semicolon tokens of one parser.Scan over the whole script, each compiled with pql.Compile after the accepted lets (DESIGN.md §5.4); the library itself is trusted here (its correctness is C01-C13)",
			"write failures and cancellation are not injected (DESIGN.md §5.6)",
			"don't-cares D1 (empty statement between semicolons) and D2 (unterminated trailing let) may or may not count as failures",
			"scripts contain no parenthesised scalar expression (DESIGN.md §3.6)",
		},
	}
	os.MkdirAll(filepath.Join(*verif, "evidence"), 0o755)
	if err := drv.WriteJSON(filepath.Join(*verif, "evidence", "C16.json"), ev); err != nil {
		fatal("%v", err)
	}
}

// raceViolation is a data race inside the tool under test, found by the race-enabled in-process leg.
type raceViolation struct {
	Tool     string              `json:"tool"`
	Property string              `json:"property"`
	Leg      string              `json:"leg"`
	Class    string              `json:"violation_class"`
	BaseSeed uint64              `json:"base_seed"`
	Worker   c16sim.WorkerConfig `json:"worker"`
	Summary  string              `json:"summary"`
	Report   string              `json:"race_report"`
}

var raceRuns int

func runRaceWorker(cfg c16sim.WorkerConfig) *raceViolation {
	r, _ := runAltWorker(*raceBin, "in-process-race", cfg)
	return r
}

// runAltWorker runs one simulation process of a race-enabled binary (race leg, scheduled leg).
func runAltWorker(bin, leg string, cfg c16sim.WorkerConfig) (*raceViolation, *c16sim.WorkerResult) {
	cfg.MultiOK = *multiOK
	j, out := simJobBin(bin, c16sim.Command{Mode: "worker", Worker: cfg}, 0, 15*time.Minute)
	j.Env = append(j.Env, "GORACE=halt_on_error=1 atexit_sleep_ms=0")
	drv.RunJob(j)
	defer os.Remove(out)
	defer os.Remove(j.Name)
	se := string(j.Stderr) + string(j.Stdout)
	if strings.Contains(se, "WARNING: DATA RACE") {
		if !strings.Contains(se, "/cmd/pql/main.go") && !strings.Contains(se, "cmd/pql.") {
			fatal("race report without a frame of the tool (harness defect?):\n%s", tail([]byte(se)))
		}
		sum := "data race involving cmd/pql"
		for _, l := range strings.Split(se, "\n") {
			if strings.Contains(l, "/cmd/pql/main.go") {
				sum += " at " + strings.TrimSpace(l)
				break
			}
		}
		return &raceViolation{Tool: toolVersion, Property: "C16", Leg: leg, Class: "data-race-in-tool", Worker: cfg, Summary: sum, Report: tail([]byte(se))}, nil
	}
	if j.TimedOut || j.ExitCode != 0 {
		fatal("race-enabled simulation process (%s) failed: exit %d timed out %v\n%s", leg, j.ExitCode, j.TimedOut, tail(j.Stderr))
	}
	var r c16sim.WorkerResult
	if err := drv.ReadJSON(out, &r); err == nil {
		raceMu.Lock()
		raceRuns += r.Runs
		raceMu.Unlock()
		return nil, &r
	}
	return nil, nil
}

var raceMu sync.Mutex

var schedLeg *schedLegResult

// schedLeg is what the scheduled leg did.
type schedLegResult struct {
	ran        bool
	why        string
	runs       int
	races      []raceViolation
	violations []c16sim.ViolationRec
	incon      []string
}

// runSchedLeg explores the schedules of the tool's own goroutines: cmd/pql is instrumented the way the
// library is for C14 and run() executes as a task of that simulator, a seeded number of schedules per case.
func runSchedLeg(base uint64, parallel int) *schedLegResult {
	res := &schedLegResult{}
	if *schedBin == "" {
		res.why = *schedWhy
		return res
	}
	res.ran = true
	// Many small processes: goroutines a (broken) tool leaves behind when run returns stay parked in the
	// simulator's task table for the life of the process, and that table is finite.
	n, scripts, seeds := 160, 3, 3
	if *tier == "thorough" {
		n, scripts, seeds = 2400, 3, 4
	}
	var mu sync.Mutex
	var wg sync.WaitGroup
	sem := make(chan struct{}, parallel)
	for i := 0; i < n; i++ {
		wg.Add(1)
		go func(i int) {
			defer wg.Done()
			sem <- struct{}{}
			defer func() { <-sem }()
			// few scripts per process: goroutines the tool leaves behind stay parked in the simulator
			cfg := c16sim.WorkerConfig{Seed: prng.Derive(base, "c16-sched-process", uint64(i)), Scripts: scripts, Benign: 3, Faulty: 3, SchedSeeds: seeds}
			rv, r := runAltWorker(*schedBin, "in-process-sched-race", cfg)
			mu.Lock()
			defer mu.Unlock()
			if rv != nil {
				rv.BaseSeed = base
				res.races = append(res.races, *rv)
			}
			if r != nil {
				res.runs += r.Runs
				res.violations = append(res.violations, r.Violations...)
				res.incon = append(res.incon, r.Inconclusive...)
			}
		}(i)
	}
	wg.Wait()
	sort.Slice(res.races, func(i, j int) bool { return res.races[i].Worker.Seed < res.races[j].Worker.Seed })
	sort.SliceStable(res.violations, func(i, j int) bool { return res.violations[i].ProcessSeed < res.violations[j].ProcessSeed })
	return res
}

func runRaceLeg(base uint64, parallel int) []raceViolation {
	if *raceBin == "" {
		return nil
	}
	n := 6
	scripts := 45
	if *tier == "thorough" {
		n, scripts = 32, 150
	}
	var mu sync.Mutex
	var wg sync.WaitGroup
	var found []raceViolation
	sem := make(chan struct{}, parallel)
	for i := 0; i < n; i++ {
		wg.Add(1)
		go func(i int) {
			defer wg.Done()
			sem <- struct{}{}
			defer func() { <-sem }()
			cfg := c16sim.WorkerConfig{Seed: prng.Derive(base, "c16-race-process", uint64(i)), Scripts: scripts, SweepFirst: 1, Benign: 3, Faulty: 2, MaxSweepLen: 400}
			if v := runRaceWorker(cfg); v != nil {
				v.BaseSeed = base
				mu.Lock()
				found = append(found, *v)
				mu.Unlock()
			}
		}(i)
	}
	wg.Wait()
	sort.Slice(found, func(i, j int) bool { return found[i].Worker.Seed < found[j].Worker.Seed })
	return found
}
