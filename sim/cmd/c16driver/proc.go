package main

import (
	"fmt"
	"path/filepath"
	"sort"
	"sync"

	"github.com/runreveal/pql/zzverif/c16sim"
	"github.com/runreveal/pql/zzverif/prng"
)

type procViolation struct {
	Tool     string           `json:"tool"`
	Property string           `json:"property"`
	Leg      string           `json:"leg"`
	Class    string           `json:"violation_class"`
	BaseSeed uint64           `json:"base_seed"`
	Index    int              `json:"case_index"`
	Proc     *c16sim.ProcCase `json:"proc_case"`
	Argv     string           `json:"argv"`
	Verdict  c16sim.Verdict   `json:"verdict"`
	Outcome  c16sim.Outcome   `json:"outcome"`
	Expected string           `json:"model_stdout"`
	Verified bool             `json:"replay_verified"`
}

type procLevelResult struct {
	execs        int
	kinds        map[string]int
	violations   []procViolation
	inconclusive []string
}

func judgeProc(pc *c16sim.ProcCase, dir string) (c16sim.Verdict, c16sim.Outcome, string, error) {
	o, argv, err := c16sim.ExecProc(*pqlBin, dir, pc)
	if err != nil {
		return c16sim.Verdict{}, o, argv, err
	}
	c := pc.JudgeCase()
	v := c16sim.Judge(c, c16sim.NewModelCache(c.Input), o)
	return v, o, argv, nil
}

func runProcLevel(base uint64, parallel int) *procLevelResult {
	res := &procLevelResult{kinds: map[string]int{}}
	if *pqlBin == "" {
		return res
	}
	n := 800
	if *tier == "thorough" {
		n = 12000
	}
	if !*inproc {
		n *= 25 // the only leg there is
	}
	cases := make([]*c16sim.ProcCase, n)
	fk := c16sim.FaultKinds(res.kinds)
	for i := range cases {
		cases[i] = c16sim.GenProcCase(prng.Sub(base, "c16-proc-level", uint64(i)), fk)
	}
	var mu sync.Mutex
	var wg sync.WaitGroup
	next := 0
	for w := 0; w < parallel; w++ {
		wg.Add(1)
		go func(w int) {
			defer wg.Done()
			for {
				mu.Lock()
				i := next
				next++
				mu.Unlock()
				if i >= n {
					return
				}
				dir := filepath.Join(*work, fmt.Sprintf("proc-%d-%d", w, i))
				v, o, argv, err := judgeProc(cases[i], dir)
				mu.Lock()
				res.execs++
				switch {
				case err != nil:
					if len(res.inconclusive) < 5 {
						res.inconclusive = append(res.inconclusive, fmt.Sprintf("process-level case %d: %v", i, err))
					}
				case v.Inconclusive != "":
					if len(res.inconclusive) < 5 {
						res.inconclusive = append(res.inconclusive, fmt.Sprintf("process-level case %d: %s", i, v.Inconclusive))
					}
				case v.Class != "":
					if len(res.violations) < 20 {
						res.violations = append(res.violations, procViolation{
							Tool: toolVersion, Property: "C16", Leg: "process-level", Class: v.Class, BaseSeed: base, Index: i,
							Proc: cases[i], Argv: argv, Verdict: v, Outcome: o,
						})
					}
				}
				mu.Unlock()
			}
		}(w)
	}
	wg.Wait()
	sort.SliceStable(res.violations, func(i, j int) bool { return res.violations[i].Index < res.violations[j].Index })
	// verify replay of the first violation of each class (same binary, fresh execution)
	seen := map[string]bool{}
	var keep []procViolation
	for _, pv := range res.violations {
		if seen[pv.Class] {
			continue
		}
		seen[pv.Class] = true
		v, _, _, err := judgeProc(pv.Proc, filepath.Join(*work, "proc-verify"))
		pv.Verified = err == nil && v.Class == pv.Class
		keep = append(keep, pv)
	}
	res.violations = keep
	return res
}
