package main

import (
	"sort"
	"fmt"
	"os"
	"path/filepath"
	"runtime"
	"time"

	"github.com/runreveal/pql/zzverif/c14sim"
	"github.com/runreveal/pql/zzverif/drv"
)

func writeEvidence(a *agg, base uint64, wall float64, reported, known, parallel, poolSize, excluded int, refWall float64) {
	reach := []string{}
	for _, p := range []string{"cold-start-runs", "two-tasks-inside-once-initialisation", "same-key-observed-in-2-or-more-tasks",
		"map-object-shared-by-2-or-more-tasks", "shared-map-run-with-switch-inside-library-calls", "runs-with-switch-between-two-tasks-inside-library-calls"} {
		if a.probes[p] == 0 {
			reach = append(reach, "probe never hit: "+p)
		}
	}
	for _, s := range []string{"sequential", "uniform", "pct", "stall", "dense-hot"} {
		if a.strategies[s] == 0 {
			reach = append(reach, "strategy never used: "+s)
		}
	}
	fnPairs := map[string]bool{}
	for p := range a.pairs {
		from, to := uint32(p>>32), uint32(p)
		if int(from) < len(sites.Sites) && int(to) < len(sites.Sites) {
			fnPairs[sites.Sites[from].Func+" -> "+sites.Sites[to].Func] = true
		}
	}
	samples := a.samples
	if len(samples) == 0 {
		samples = []any{"(no sample recorded)"}
	}
	perHour := func(n int) int { return int(float64(n) / wall * 3600) }
	ev := drv.Evidence{
		PropertyID: "C14", Tier: *tier, Seed: int64(base), Level: "exploration", WallS: wall, Violations: reported,
		Coverage: map[string]any{
			"evaluations":         a.runs,
			"distinct_nontrivial": len(a.sigsNT),
			"rule": "one evaluation = one simulated run: 2-6 caller goroutines issuing 1-4 real Compile/Parse/Scan/SplitStatements calls each on the instrumented library under the seeded scheduler (race detector on). " +
				"An interleaving is identified by the hash of its switch sequence (from-task@site, event kind, to-task@site)*; distinct_nontrivial counts distinct interleavings containing at least one switch between two tasks that were both inside a library call",
			"samples":                        samples,
			"exhaustive":                     false,
			"simulation_processes":           a.procs,
			"runs":                           a.runs,
			"library_calls":                  a.calls,
			"logical_steps_yields":           a.yields,
			"simulated_time":                 "the pinned library has no clock, timer or deadline (DESIGN.md §1): simulated_time_total_s only counts the clock jumps the harness injects between calls; if a changed tree reads a clock or arms timers they run on this simulated clock (DESIGN.md §4.9)",
			"switches":                       a.switches,
			"preemptions_fired":              a.preempts,
			"distinct_interleavings":         len(a.sigs),
			"distinct_site_pairs":            len(a.pairs),
			"distinct_function_pairs":        len(fnPairs),
			"strategies":                     a.strategies,
			"probes":                         a.probes,
			"single_preemption_sweep_pairs":  a.sweepPairs,
			"single_preemption_sweep_points": a.sweepPoints,
			"single_preemption_sweep_cold":   a.sweepCold,
			"pool_keys":                      poolSize,
			"excluded_nonterminating":        excluded,
			"reference_pass_s":               refWall,
			"yield_sites":                    len(sites.Sites),
			"sync_shims":                     sites.SyncShims,
			"unsupported_constructs":         sites.Unsupported,
			"option_fields_besides_parameters": optionFieldsNote(),
			"dot_range_calls":                sites.RangeCalls,
			"runs_per_hour":                  perHour(a.runs),
			"process_seeds_per_hour":         perHour(a.procs),
			"reach_warnings":                 reach,
			"known_findings_matched":         known,
			"determinism_recheck":            determinismNote,
			"degraded_free_daemons":          freeMode,
			"unowned_runtime_choices":        a.unowned,
			"fault_kinds_fired": map[string]int{
				"preemption-at-instrumented-statement": a.preempts, "task-switch": a.switches,
				"cold-start (first calls in a fresh process)": a.probes["cold-start-runs"],
				"once-contended": a.probes["two-tasks-inside-once-initialisation"], "shared-parameter-map": a.probes["map-object-shared-by-2-or-more-tasks"],
				"simulated-clock-jump": a.clockJumps, "simulated-timer-fired": a.timersFired,
				"library-goroutine-scheduled-during-a-call": a.probes["library-started-goroutine-ran-while-a-caller-was-inside-a-call"],
				"reference-process-environment-changed": envPerturbed,
			},
			"environment_variables_read_by_tree": envVarNames(),
			"simulated_time_total_s":   float64(a.simNanos) / 1e9,
			"simulator_owned_constructs": sites.SimOwned,
			"real_components":    []string{"pql", "pql/parser (statement-level yields inserted, sync calls via shims that invoke the real primitive)", "Go runtime", "race detector (happens-before)", "real goroutines"},
			"stubbed_components": []string{"the choice of which goroutine runs (seeded scheduler instead of the Go/OS scheduler)"},
			"parallel_processes": parallel,
			"go_version":         runtime.Version(),
			"tool":               toolVersion,
		},
		Assumptions: []string{
			"reference = result of a lone first call in a fresh uninstrumented process (DESIGN.md §4.5)",
			"behavioural effects explored at statement granularity; the race oracle (O4) is Go's happens-before race detector under the serialised schedule",
			"Go's map-iteration randomness cannot be seeded (DESIGN.md §3.3)",
			"sources contain no parenthesised scalar expression (DESIGN.md §3.6)",
		},
	}
	os.MkdirAll(filepath.Join(*verif, "evidence"), 0o755)
	if err := drv.WriteJSON(filepath.Join(*verif, "evidence", "C14.json"), ev); err != nil {
		fatal("%v", err)
	}
}

// doSelftestDeterminism: 40 process seeds x 3 executions at GOMAXPROCS 1/4/16, one at a time and 16 side by side.
func doSelftestDeterminism(base uint64, parallel int, pool []*c14sim.Key, eligible []int, poolPath string) int {
	const nSeeds = 40
	logs := map[[2]uint64]string{}
	mk := func(rep int, gmp int) []*procRun {
		var ps []*procRun
		for i := 0; i < nSeeds; i++ {
			s := procSeed(base, i)
			lp := filepath.Join(*work, fmt.Sprintf("evlog-%d-%d.txt", i, rep))
			logs[[2]uint64{s, uint64(rep)}] = lp
			ps = append(ps, newProc(c14sim.ProcCmd{PoolPath: poolPath, Seed: s, Runs: 12, LogPath: lp}, gmp, 5*time.Minute))
		}
		return ps
	}
	a0, a1, a2 := newAgg(), newAgg(), newAgg()
	runProcs(a0, mk(0, 1), 1, pool, eligible, false)
	runProcs(a1, mk(1, 4), parallel, pool, eligible, false)
	runProcs(a2, mk(2, 16), parallel, pool, eligible, false)
	if len(a0.found)+len(a1.found)+len(a2.found) > 0 {
		fmt.Println("C14 determinism self-test: violations were observed; run the check itself")
		return drv.ExitInconclusive
	}
	bad, events := 0, 0
	for i := 0; i < nSeeds; i++ {
		s := procSeed(base, i)
		b0, _ := os.ReadFile(logs[[2]uint64{s, 0}])
		b1, _ := os.ReadFile(logs[[2]uint64{s, 1}])
		b2, _ := os.ReadFile(logs[[2]uint64{s, 2}])
		for _, c := range b0 {
			if c == '\n' {
				events++
			}
		}
		if len(b0) == 0 || string(b0) != string(b1) || string(b0) != string(b2) {
			fmt.Printf("HARNESS-NONDETERMINISM: process seed %d: event logs differ between repetitions\n", s)
			bad++
		}
		for r := 0; r < 3; r++ {
			os.Remove(logs[[2]uint64{s, uint64(r)}])
		}
	}
	fmt.Printf("C14 determinism self-test: %d process seeds x 3 executions (GOMAXPROCS 1/4/16; 1 and %d processes side by side), %d events per repetition compared byte for byte, %d divergent; .Range( calls in the instrumented tree: %v\n",
		nSeeds, parallel, events, bad, sites.RangeCalls)
	if bad > 0 {
		return drv.ExitInconclusive
	}
	return 0
}

func optionFieldsNote() string {
	fillable, skipped := c14sim.OptionFields()
	return fmt.Sprintf("filled with generated values: %v; left zero: %v", fillable, skipped)
}

func envVarNames() []string {
	out := []string{}
	for n := range envVars.Vars {
		out = append(out, n)
	}
	sort.Strings(out)
	return out
}
