package main

import (
	"fmt"
	"os"
	"path/filepath"
	"time"

	"github.com/runreveal/pql/zzverif/c14sim"
	"github.com/runreveal/pql/zzverif/drv"
)

// ReplayFile is the self-contained C14 replay artefact (DESIGN.md §3.2).
type ReplayFile struct {
	Tool           string            `json:"tool"`
	Property       string            `json:"property"`
	Class          string            `json:"violation_class"`
	Detail         string            `json:"detail"`
	BaseSeed       uint64            `json:"base_seed"`
	ProcessSeed    uint64            `json:"process_seed"`
	Pool           []*c14sim.Key     `json:"pool"` // only the keys the runs use; CallSpec.Key indexes this list
	Runs           []c14sim.RunSpec  `json:"runs"` // every run of the process up to the failing one; the last carries the explicit schedule
	Expected       string            `json:"expected,omitempty"`
	Observed       string            `json:"observed,omitempty"`
	RaceReport     string            `json:"race_report,omitempty"`
	Minimised      bool              `json:"minimised"`
	Attempts       int               `json:"minimiser_attempts"`
	ReplayVerified bool              `json:"replay_verified"`
	OriginalRuns   []c14sim.RunSpec  `json:"original_runs,omitempty"`
	// Env: for lone-calls-disagree, the environment change every second lone process runs under
	Env []string `json:"environment,omitempty"`
}

// compact builds a replay file whose pool holds only the keys in use.
func compact(f *finding, base uint64, pool []*c14sim.Key) *ReplayFile {
	rf := &ReplayFile{Tool: toolVersion, Property: "C14", Class: f.Class, Detail: f.Detail, BaseSeed: base, ProcessSeed: f.ProcSeed, RaceReport: f.Stderr}
	if f.V != nil {
		rf.Expected, rf.Observed = f.V.Expected, f.V.Observed
	}
	idx := map[int]int{}
	for _, spec := range f.Specs {
		s := cloneSpec(spec)
		for ti := range s.Tasks {
			for ci := range s.Tasks[ti].Calls {
				old := s.Tasks[ti].Calls[ci].Key
				n, ok := idx[old]
				if !ok {
					n = len(rf.Pool)
					idx[old] = n
					k := *pool[old]
					k.ID = n
					rf.Pool = append(rf.Pool, &k)
				}
				s.Tasks[ti].Calls[ci].Key = n
			}
		}
		rf.Runs = append(rf.Runs, s)
	}
	return rf
}

func cloneSpec(s c14sim.RunSpec) c14sim.RunSpec {
	d := s
	d.Tasks = nil
	for _, t := range s.Tasks {
		d.Tasks = append(d.Tasks, c14sim.TaskSpec{Calls: append([]c14sim.CallSpec(nil), t.Calls...)})
	}
	d.Prio = append([]int(nil), s.Prio...)
	d.PreemptAt = nil
	for _, p := range s.PreemptAt {
		d.PreemptAt = append(d.PreemptAt, append([]uint64(nil), p...))
	}
	if s.Explicit != nil {
		d.Explicit = append([]c14sim.SwitchEv{}, s.Explicit...)
	}
	return d
}

// execReplay runs the explicit case in a fresh process and returns the violation class observed ("" = none).
func execReplay(poolPath string, runs []c14sim.RunSpec) (class, detail, observed string) {
	p := newProc(c14sim.ProcCmd{PoolPath: poolPath, Seed: 0, Explicit: runs}, 0, 3*time.Minute)
	drv.RunJob(p.job)
	if p.job.TimedOut {
		os.Remove(p.cmd.TracePath)
		return "timeout", "replay process did not finish", ""
	}
	p.finish()
	os.Remove(p.cmd.TracePath)
	if p.crash != nil {
		return p.crash.Class, p.crash.Detail, p.crash.Stderr
	}
	if p.res != nil && p.res.Violation != nil {
		return p.res.Violation.Class, p.res.Violation.Detail, p.res.Violation.Observed
	}
	return "", "", ""
}

// writeReplayPool writes the replay's pool with references recomputed on the current tree.
func writeReplayPool(rf *ReplayFile, parallel int) string {
	path := tmp("replay-pool") + ".json"
	keys := make([]*c14sim.Key, len(rf.Pool))
	for i, k := range rf.Pool {
		c := *k
		c.ID = i
		c.Ref, c.RefOK, c.Excluded = "", false, ""
		keys[i] = &c
	}
	referencePass(keys, path, parallel)
	for i, k := range keys {
		if !k.RefOK {
			fmt.Printf("note: replay key %d has no reference result on this tree: %s\n", i, k.Excluded)
		}
	}
	return path
}

// finalize verifies, minimises and re-verifies a finding.
func finalize(f *finding, base uint64, pool []*c14sim.Key, parallel int) *ReplayFile {
	if f.Class == "lone-calls-disagree" {
		k := *f.Pool[0]
		k.ID = 0
		rf := &ReplayFile{Tool: toolVersion, Property: "C14", Class: f.Class, Detail: f.Detail, BaseSeed: base, Pool: []*c14sim.Key{&k}, Minimised: true, Env: minimiseEnv(&k, f.Env, parallel)}
		rf.ReplayVerified, _, _ = refsDisagree(&k, 12, parallel, rf.Env...)
		return rf
	}
	rf := compact(f, base, pool)
	poolPath := writeReplayPool(rf, parallel)
	defer os.Remove(poolPath)
	same := func(runs []c14sim.RunSpec) bool {
		c, _, _ := execReplay(poolPath, runs)
		return c == rf.Class
	}
	// does the unminimised explicit case reproduce?
	ok := same(rf.Runs) || same(rf.Runs)
	if !ok && len(rf.Runs) > 0 {
		// results that depend on Go's map iteration order reproduce only by repetition (DESIGN.md §3.3)
		rep := cloneRuns(rf.Runs)
		rep[len(rep)-1].Repeat = 64
		if same(rep) {
			rf.Runs = rep
			ok = true
		}
	}
	if !ok {
		fmt.Println("HARNESS-NONDETERMINISM: an observed violation did not reproduce from its explicit case; reporting it unminimised")
		rf.ReplayVerified = false
		return rf
	}
	rf.ReplayVerified = true
	rf.OriginalRuns = cloneRuns(rf.Runs)
	attempts := 0
	budget := 120
	try := func(cand []c14sim.RunSpec) bool {
		if attempts >= budget {
			return false
		}
		attempts++
		if same(cand) {
			rf.Runs = cand
			return true
		}
		return false
	}
	// 1. drop earlier runs
	if len(rf.Runs) > 1 {
		if !try(cloneRuns(rf.Runs[len(rf.Runs)-1:])) {
			for i := 0; i < len(rf.Runs)-1; {
				cand := append(cloneRuns(rf.Runs[:i]), cloneRuns(rf.Runs[i+1:])...)
				if !try(cand) {
					i++
				}
			}
		}
	}
	// 2. drop tasks of the failing run
	for t := len(rf.Runs[len(rf.Runs)-1].Tasks) - 1; t >= 0; t-- {
		last := rf.Runs[len(rf.Runs)-1]
		if len(last.Tasks) <= 1 {
			break
		}
		cand := cloneRuns(rf.Runs)
		cand[len(cand)-1] = dropTask(last, t)
		try(cand)
	}
	// 3. drop trailing calls
	for t := range rf.Runs[len(rf.Runs)-1].Tasks {
		for {
			last := rf.Runs[len(rf.Runs)-1]
			if t >= len(last.Tasks) || len(last.Tasks[t].Calls) <= 1 {
				break
			}
			cand := cloneRuns(rf.Runs)
			ct := &cand[len(cand)-1].Tasks[t]
			ct.Calls = ct.Calls[:len(ct.Calls)-1]
			if !try(cand) {
				break
			}
		}
	}
	// 4. drop switch events, last first
	for i := len(rf.Runs[len(rf.Runs)-1].Explicit) - 1; i >= 0; i-- {
		last := rf.Runs[len(rf.Runs)-1]
		if i >= len(last.Explicit) {
			continue
		}
		cand := cloneRuns(rf.Runs)
		e := cand[len(cand)-1].Explicit
		cand[len(cand)-1].Explicit = append(append([]c14sim.SwitchEv{}, e[:i]...), e[i+1:]...)
		try(cand)
	}
	rf.Minimised = attempts > 0
	rf.Attempts = attempts
	// final verification in a fresh process
	if !same(rf.Runs) && !same(rf.Runs) {
		rf.Runs = rf.OriginalRuns
		rf.Minimised = false
		rf.ReplayVerified = same(rf.Runs)
	}
	if c, d, o := execReplay(poolPath, rf.Runs); c == rf.Class {
		rf.Detail = d
		if rf.Class == "data-race" || rf.Class == "fatal-error" || rf.Class == "process-crash" {
			rf.RaceReport = o
		} else if o != "" {
			rf.Observed = o
		}
	}
	// carry the current references along
	var keys []*c14sim.Key
	if drv.ReadJSON(poolPath, &keys) == nil && len(keys) == len(rf.Pool) {
		rf.Pool = keys
	}
	return rf
}

func cloneRuns(rs []c14sim.RunSpec) []c14sim.RunSpec {
	out := make([]c14sim.RunSpec, len(rs))
	for i, r := range rs {
		out[i] = cloneSpec(r)
	}
	return out
}

// dropTask removes task t from a run with an explicit schedule.
func dropTask(s c14sim.RunSpec, t int) c14sim.RunSpec {
	d := cloneSpec(s)
	d.Tasks = append(d.Tasks[:t:t], d.Tasks[t+1:]...)
	var ex []c14sim.SwitchEv
	ren := func(x int) int {
		if x > t {
			return x - 1
		}
		return x
	}
	for _, e := range d.Explicit {
		if e.Task == t {
			continue
		}
		if e.Next == t {
			continue
		}
		e.Task, e.Next = ren(e.Task), ren(e.Next)
		ex = append(ex, e)
	}
	if d.Explicit != nil && ex == nil {
		ex = []c14sim.SwitchEv{}
	}
	d.Explicit = ex
	return d
}

// minimiseEnv drops every environment assignment that is not needed for two lone calls to disagree. If the
// calls disagree without any change of environment, none is recorded.
func minimiseEnv(k *c14sim.Key, env []string, parallel int) []string {
	if len(env) == 0 {
		return nil
	}
	if d, _, _ := refsDisagree(k, 8, parallel); d {
		return nil
	}
	cur := append([]string{}, env...)
	for i := 0; i < len(cur); {
		cand := append(append([]string{}, cur[:i]...), cur[i+1:]...)
		if d, _, _ := refsDisagree(k, 4, parallel, cand...); d && len(cand) > 0 {
			cur = cand
		} else {
			i++
		}
	}
	return cur
}

func doReplay(path string, parallel int) int {
	var rf ReplayFile
	if err := drv.ReadJSON(path, &rf); err != nil {
		fatal("%v", err)
	}
	if rf.Class == "lone-calls-disagree" {
		if len(rf.Pool) == 0 {
			fatal("replay file without a key")
		}
		if d, x, y := refsDisagree(rf.Pool[0], 16, parallel, rf.Env...); d {
			fmt.Printf("16 lone first calls of %s(%q) in fresh processes: results differ\n  %s\n  %s\nVIOLATION property=C14 replay=%s\n", rf.Pool[0].API, clip(rf.Pool[0].Source, 200), clip(x, 600), clip(y, 600), path)
			return drv.ExitViolation
		}
		fmt.Println("not reproduced: 16 lone first calls in fresh processes agree")
		return drv.ExitHeld
	}
	poolPath := writeReplayPool(&rf, parallel)
	defer os.Remove(poolPath)
	for attempt := 0; attempt < 3; attempt++ {
		c, d, o := execReplay(poolPath, rf.Runs)
		if c == rf.Class {
			fmt.Printf("replayed %d run(s) in a fresh process: class=%s\n  %s\n", len(rf.Runs), c, d)
			if o != "" {
				fmt.Printf("  %s\n", clip(o, 1500))
			}
			rf2 := rf
			describe(&rf2)
			fmt.Printf("VIOLATION property=C14 replay=%s\n", path)
			return drv.ExitViolation
		}
		if attempt == 2 {
			// a reference that is not a function of its key makes "differs from the reference" a matter of chance
			for _, k := range rf.Pool {
				if d, x, y := refsDisagree(k, 12, parallel); d {
					fmt.Printf("the recorded schedule did not reproduce class %q, but lone first calls of %s(%q) in fresh processes disagree with each other:\n  %s\n  %s\nVIOLATION property=C14 replay=%s\n", rf.Class, k.API, clip(k.Source, 200), clip(x, 600), clip(y, 600), path)
					return drv.ExitViolation
				}
			}
			fmt.Printf("not reproduced (observed class %q)\n", c)
		}
	}
	return drv.ExitHeld
}

var _ = filepath.Join
