package main

import (
	"time"

	"github.com/runreveal/pql/zzverif/c14sim"
	"github.com/runreveal/pql/zzverif/drv"
	"github.com/runreveal/pql/zzverif/prng"
)

const (
	flagPkgVar = 1
	flagMap    = 2
	flagSync   = 4
)

// sweep is the systematic single-preemption sweep (DESIGN.md §4.3): for seeded key pairs (A, B) and
// every shared-state yield A's call passes, one two-task run in which A is parked exactly there,
// B runs its whole call, A resumes — cold (A's call is the first in a fresh process) and warm.
func sweep(a *agg, base uint64, pool []*c14sim.Key, eligible []int, poolPath string, parallel int, nPairs, maxCold int) {
	r := prng.Sub(base, "c14-sweep", 0)
	var compileKeys []int
	for _, i := range eligible {
		if pool[i].API == "compile" {
			compileKeys = append(compileKeys, i)
		}
	}
	if len(compileKeys) == 0 {
		return
	}
	type pair struct {
		a, b   c14sim.CallSpec
		dry    *procRun
		cold   []c14sim.HotYield
		warm   []c14sim.HotYield
	}
	var pairs []*pair
	var dry []*procRun
	for p := 0; p < nPairs; p++ {
		ka := compileKeys[r.Intn(len(compileKeys))]
		kb := eligible[r.Intn(len(eligible))]
		if r.Chance(1, 3) {
			kb = ka // the same key from two callers
		}
		fa := pool[ka].OptForms()
		fb := pool[kb].OptForms()
		pr := &pair{a: c14sim.CallSpec{Key: ka, Form: fa[r.Intn(len(fa))]}, b: c14sim.CallSpec{Key: kb, Form: fb[r.Intn(len(fb))]}}
		if pool[kb].API == "compile" && c14sim.Dump(pool[ka].Params) == c14sim.Dump(pool[kb].Params) && r.Chance(1, 2) {
			f := []string{"shared", "sharedopts"}[r.Intn(2)]
			pr.a.Form, pr.a.Shared = f, 1
			pr.b.Form, pr.b.Shared = f, 1
		} else {
			if c14sim.IsSharedForm(pr.a.Form) {
				pr.a.Shared = 1
			}
			if c14sim.IsSharedForm(pr.b.Form) {
				pr.b.Shared = 2
			}
		}
		one := c14sim.RunSpec{Strategy: "sequential", StickPct: 100, Tasks: []c14sim.TaskSpec{{Calls: []c14sim.CallSpec{pr.a}}}}
		two := one
		two.Index = 1
		pr.dry = newProc(c14sim.ProcCmd{PoolPath: poolPath, Explicit: []c14sim.RunSpec{one, two}, RecordHot: true}, 0, 3*time.Minute)
		dry = append(dry, pr.dry)
		pairs = append(pairs, pr)
	}
	tmpAgg := newAgg()
	runProcs(tmpAgg, dry, parallel, pool, eligible, false)
	a.found = append(a.found, tmpAgg.found...)
	if len(a.found) > 0 {
		return
	}
	var procs []*procRun
	for _, pr := range pairs {
		if pr.dry.res == nil || len(pr.dry.res.Hot) < 2 {
			continue
		}
		a.sweepPairs++
		// cold points: package-level state and sync sites; first occurrence of every site, then a seeded sample
		var cand []c14sim.HotYield
		seenSite := map[uint32]bool{}
		var rest []c14sim.HotYield
		for _, h := range pr.dry.res.Hot[0] {
			if int(h.Site) >= len(sites.Sites) || sites.Sites[h.Site].Flags&(flagPkgVar|flagSync) == 0 {
				continue
			}
			if !seenSite[h.Site] {
				seenSite[h.Site] = true
				cand = append(cand, h)
			} else {
				rest = append(rest, h)
			}
		}
		for len(cand) < maxCold && len(rest) > 0 {
			i := r.Intn(len(rest))
			cand = append(cand, rest[i])
			rest = append(rest[:i], rest[i+1:]...)
		}
		if len(cand) > maxCold {
			cand = cand[:maxCold]
		}
		mk := func(idx int, y uint64) c14sim.RunSpec {
			return c14sim.RunSpec{Index: idx, Strategy: "sweep", Prio: []int{2, 1}, PreemptAt: [][]uint64{{y}, nil},
				Tasks: []c14sim.TaskSpec{{Calls: []c14sim.CallSpec{pr.a}}, {Calls: []c14sim.CallSpec{pr.b}}}}
		}
		for _, h := range cand {
			procs = append(procs, newProc(c14sim.ProcCmd{PoolPath: poolPath, Explicit: []c14sim.RunSpec{mk(0, h.Yield)}}, 0, 3*time.Minute))
			a.sweepPoints++
			a.sweepCold++
		}
		// warm points: every hot yield (capped), all in one process after a warm-up run
		warm := pr.dry.res.Hot[1]
		if len(warm) > 400 {
			step := float64(len(warm)) / 400
			var w2 []c14sim.HotYield
			for i := 0; i < 400; i++ {
				w2 = append(w2, warm[int(float64(i)*step)])
			}
			warm = w2
		}
		runs := []c14sim.RunSpec{{Index: 0, Strategy: "sequential", StickPct: 100, Tasks: []c14sim.TaskSpec{{Calls: []c14sim.CallSpec{pr.a, pr.b}}}}}
		for i, h := range warm {
			runs = append(runs, mk(i+1, h.Yield))
			a.sweepPoints++
		}
		procs = append(procs, newProc(c14sim.ProcCmd{PoolPath: poolPath, Explicit: runs}, 0, 5*time.Minute))
	}
	runProcs(a, procs, parallel, pool, eligible, true)
	_ = drv.ExitHeld
}
