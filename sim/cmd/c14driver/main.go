// c14driver orchestrates the C14 schedule simulation: workload pool, reference
// pass (one uninstrumented fresh process per key), simulation processes
// (instrumented, -race), systematic single-preemption sweeps, determinism
// re-check, minimisation and replay of violations, evidence.
package main

import (
	"crypto/sha256"
	"encoding/binary"
	"encoding/json"
	"flag"
	"fmt"
	"os"
	"os/exec"
	"path/filepath"
	"runtime"
	"sort"
	"strings"
	"time"

	"github.com/runreveal/pql/zzverif/c14sim"
	"github.com/runreveal/pql/zzverif/drv"
	"github.com/runreveal/pql/zzverif/prng"
)

const toolVersion = "c14sim/1"

var (
	tier     = flag.String("tier", "quick", "quick | thorough")
	seedFlag = flag.Uint64("seed", 0, "base seed (VERIF_SEED)")
	procBin  = flag.String("proc", "", "simulation process binary (instrumented, -race)")
	refBin   = flag.String("ref", "", "reference process binary (uninstrumented)")
	sitesF   = flag.String("sites", "", "sites.json written by instr")
	work     = flag.String("work", "", "scratch directory")
	verif    = flag.String("verif", "/verif", "verification directory")
	replay   = flag.String("replay", "", "replay file to re-execute")
	selftest = flag.Bool("selftest-determinism", false, "run the determinism self-test")
	budgetS  = flag.Int("budget", 0, "thorough tier wall-clock budget in seconds")
	noEvid   = flag.Bool("no-evidence", false, "do not write the evidence file")
	envVarsF = flag.String("envvars", "", "envvars.json written by envscan: environment variables the tree under test reads")
	par      = flag.Int("par", 0, "parallel processes")
	quickN   = flag.Int("quick-procs", 0, "override the number of simulation processes of the quick tier")
	oneSeed  = flag.Uint64("proc-seed", 0, "debug: run only the simulation process with this process seed")
	oneRuns  = flag.Int("proc-runs", 16, "debug: number of runs for -proc-seed")
	oneHist  = flag.Bool("proc-history", false, "debug: -proc-seed runs a long-history process")
)

func fatal(format string, args ...any) {
	fmt.Fprintf(os.Stderr, "c14driver: "+format+"\n", args...)
	os.Exit(drv.ExitInconclusive)
}

type siteInfo struct {
	ID    int    `json:"id"`
	File  string `json:"file"`
	Line  int    `json:"line"`
	Func  string `json:"func"`
	Flags int    `json:"flags"`
}

type sitesReport struct {
	Sites       []siteInfo `json:"sites"`
	SyncShims   []string   `json:"sync_shims"`
	Unsupported []string   `json:"unsupported"`
	SimOwned    []string   `json:"simulator_owned"`
	RangeCalls  []string   `json:"dot_range_calls"`
}

var sites sitesReport

var freeMode = os.Getenv("ZZSIM_FREE_DAEMONS") == "1"

var determinismNote = "3 process seeds re-executed at GOMAXPROCS=1, event-log digests identical"

func siteName(id uint32) string {
	if int(id) < len(sites.Sites) {
		s := sites.Sites[id]
		return fmt.Sprintf("%s:%d %s", s.File, s.Line, s.Func)
	}
	return fmt.Sprintf("site %d", id)
}

var seq int

func tmp(name string) string {
	seq++
	return filepath.Join(*work, fmt.Sprintf("%s-%d", name, seq))
}

func procSeed(base uint64, i int) uint64 { return prng.Derive(base, "c14-process", uint64(i)) }

// ---- reference pass ----

func referencePass(pool []*c14sim.Key, poolPath string, parallel int) (excluded int) {
	if err := drv.WriteJSON(poolPath, pool); err != nil {
		fatal("%v", err)
	}
	var jobs []*drv.Job
	for _, k := range pool {
		kb, err := json.Marshal(k)
		if err != nil {
			fatal("%v", err)
		}
		jobs = append(jobs, &drv.Job{Name: fmt.Sprint(k.ID), Argv: []string{*refBin}, Stdin: kb, Timeout: 10 * time.Second, Dir: *work})
	}
	drv.RunPool(jobs, parallel, nil, nil)
	for i, j := range jobs {
		k := pool[i]
		switch {
		case j.TimedOut:
			k.Excluded = "reference call did not return within 10 s (C12 territory)"
			excluded++
		case j.ExitCode != 0:
			k.Excluded = fmt.Sprintf("reference process exited with %d: %s", j.ExitCode, firstLine(string(j.Stderr)))
			excluded++
		default:
			k.Ref = string(j.Stdout)
			k.RefOK = true
		}
	}
	// The reference is itself an observation of the property: two lone first calls with the same key in two
	// fresh processes must agree. (Per-process randomness — hash seeds, addresses, map iteration order —
	// shows here without any schedule at all.)
	// With variables of its own to assign (the tree reads some), four differently drawn environments per key.
	rounds := 1
	if len(envVars.Vars) > 0 {
		rounds = 4
	}
	flagged := map[int]bool{}
	for round := 0; round < rounds; round++ {
		var again []*drv.Job
		var idx []int
		for i, k := range pool {
			if !k.RefOK || flagged[i] {
				continue
			}
			kb, _ := json.Marshal(&c14sim.Key{ID: k.ID, API: k.API, Source: k.Source, Params: k.Params, Extra: k.Extra})
			// the second process runs in a different ENVIRONMENT (seeded): the result may depend on the key only
			again = append(again, &drv.Job{Name: fmt.Sprint(k.ID), Argv: []string{*refBin}, Stdin: kb, Timeout: 10 * time.Second, Dir: *work, Env: perturbedEnv(k, round)})
			idx = append(idx, i)
		}
		drv.RunPool(again, parallel, nil, nil)
		for n, j := range again {
			k := pool[idx[n]]
			if !j.TimedOut && j.ExitCode == 0 && string(j.Stdout) != k.Ref {
				envNote := ""
				if len(again[n].Env) > 0 {
					envNote = fmt.Sprintf(" (the second one with the environment changed: %q)", again[n].Env)
				}
				loneDisagree = append(loneDisagree, &finding{Class: "lone-calls-disagree", Pool: []*c14sim.Key{k}, Env: again[n].Env,
					Detail: fmt.Sprintf("two lone first calls with the same source and parameters, each in a fresh process%s, gave different results:\n      %s\n      %s", envNote, clip(k.Ref, 600), clip(string(j.Stdout), 600))})
				flagged[idx[n]] = true
			}
		}
	}
	if err := drv.WriteJSON(poolPath, pool); err != nil {
		fatal("%v", err)
	}
	return excluded
}

// loneDisagree collects keys whose reference is not a function of the key (filled by referencePass).
var loneDisagree []*finding

// envVars is the table written by envscan (nil if the tree reads no environment variable).
var envVars struct {
	Vars    map[string][]string `json:"vars"`
	Dynamic []string            `json:"dynamic"`
}
var envPerturbed int

// nGenericEnvValues is the number of generic candidate values envscan puts in front of the dictionary.
const nGenericEnvValues = 10

func loadEnvVars() {
	if *envVarsF == "" {
		return
	}
	if err := drv.ReadJSON(*envVarsF, &envVars); err != nil {
		fatal("%v", err)
	}
}

// perturbedEnv is the seeded environment change for the second lone first call of key k (DESIGN.md §4.10):
// every variable the tree reads gets a candidate value (or stays unset, 1 in 4), and a few variables that
// programs commonly consult get unusual values. Go's own runtime knobs (GODEBUG, GOGC, GOMAXPROCS, …) are
// left alone.
func perturbedEnv(k *c14sim.Key, round int) []string {
	r := prng.Sub(*seedFlag, "c14-env", uint64(k.ID)*8+uint64(round))
	env := []string{
		"TZ=" + []string{"Pacific/Kiritimati", "UTC", "America/St_Johns", ""}[r.Intn(4)],
		"LANG=" + []string{"tr_TR.UTF-8", "C", "de_DE.ISO-8859-1"}[r.Intn(3)],
		"LC_ALL=" + []string{"tr_TR.UTF-8", "C", "ja_JP.eucJP"}[r.Intn(3)],
		"COLUMNS=" + []string{"1", "40", "9999"}[r.Intn(3)],
		"NO_COLOR=" + []string{"", "1"}[r.Intn(2)],
	}
	names := make([]string, 0, len(envVars.Vars))
	for n := range envVars.Vars {
		names = append(names, n)
	}
	sort.Strings(names)
	for _, n := range names {
		c := envVars.Vars[n]
		if len(c) == 0 || r.Chance(1, 4) {
			continue
		}
		// half of the draws from the generic values (envscan lists them first), half from the dictionary
		if g := nGenericEnvValues; len(c) > g && r.Chance(1, 2) {
			env = append(env, n+"="+c[r.Intn(g)])
		} else {
			env = append(env, n+"="+c[r.Intn(len(c))])
		}
	}
	envPerturbed++
	return env
}

// refsDisagree runs n lone first calls of key k in fresh processes — every second one in environment env, if
// given — and reports two differing results, if any.
func refsDisagree(k *c14sim.Key, n, parallel int, env ...string) (bool, string, string) {
	kb, _ := json.Marshal(&c14sim.Key{ID: k.ID, API: k.API, Source: k.Source, Params: k.Params, Extra: k.Extra})
	var jobs []*drv.Job
	for i := 0; i < n; i++ {
		j := &drv.Job{Name: fmt.Sprint(i), Argv: []string{*refBin}, Stdin: kb, Timeout: 10 * time.Second, Dir: *work}
		if i%2 == 1 {
			j.Env = env
		}
		jobs = append(jobs, j)
	}
	drv.RunPool(jobs, parallel, nil, nil)
	first, have := "", false
	for _, j := range jobs {
		if j.TimedOut || j.ExitCode != 0 {
			continue
		}
		if !have {
			first, have = string(j.Stdout), true
		} else if string(j.Stdout) != first {
			return true, first, string(j.Stdout)
		}
	}
	return false, "", ""
}

func firstLine(s string) string {
	if i := strings.IndexByte(s, '\n'); i >= 0 {
		return s[:i]
	}
	return s
}

// ---- simulation processes ----

type procRun struct {
	cmd   c14sim.ProcCmd
	job   *drv.Job
	res   *c14sim.ProcResult
	crash *crashInfo
	// pool / eligible override the default pool for this process (long-history processes use a bigger one)
	pool     []*c14sim.Key
	eligible []int
}

type crashInfo struct {
	Class  string
	Detail string
	Stderr string
}

func newProc(cmd c14sim.ProcCmd, gomaxprocs int, timeout time.Duration) *procRun {
	cmd.Out = tmp("out") + ".json"
	if cmd.TracePath == "" {
		cmd.TracePath = tmp("trace") + ".bin"
	}
	cmdPath := tmp("cmd") + ".json"
	if err := drv.WriteJSON(cmdPath, cmd); err != nil {
		fatal("%v", err)
	}
	env := []string{"ZZSIM_CMD=" + cmdPath, "GORACE=halt_on_error=1 atexit_sleep_ms=0"}
	if gomaxprocs > 0 {
		env = append(env, fmt.Sprintf("GOMAXPROCS=%d", gomaxprocs))
	}
	return &procRun{cmd: cmd, job: &drv.Job{Name: cmdPath, Argv: []string{*procBin}, Env: env, Dir: *work, Timeout: timeout}}
}

// finish interprets the exit of a simulation process.
func (p *procRun) finish() {
	j := p.job
	defer os.Remove(j.Name)
	se := string(j.Stderr)
	switch {
	case j.TimedOut:
		fmt.Printf("INCONCLUSIVE: WATCHDOG: simulation process (seed %d) made no progress within %v — a task is stuck in uninstrumented code or an unsupported blocking construct (UNSUPPORTED-SYNC) %v\n", p.cmd.Seed, j.Timeout, sites.Unsupported)
		os.Exit(drv.ExitInconclusive)
	case strings.Contains(se, "WARNING: DATA RACE"):
		if !strings.Contains(se, "github.com/runreveal/pql.") && !strings.Contains(se, "github.com/runreveal/pql/parser.") && !strings.Contains(se, "github.com/runreveal/pql.(") {
			fatal("race report without a library frame (harness defect?):\n%s", tailS(se))
		}
		p.crash = &crashInfo{Class: "data-race", Detail: raceSummary(se), Stderr: tailS(se)}
	case j.ExitCode != 0 && strings.Contains(se, "panic: zzsimrt:"):
		fmt.Printf("INCONCLUSIVE: the simulation runtime hit one of its own limits (seed %d): %s\n", p.cmd.Seed, firstLine(se[strings.Index(se, "panic: zzsimrt:"):]))
		os.Exit(drv.ExitInconclusive)
	case j.ExitCode != 0 && strings.Contains(se, "fatal error:"):
		p.crash = &crashInfo{Class: "fatal-error", Detail: firstLine(se[strings.Index(se, "fatal error:"):]), Stderr: tailS(se)}
	case j.ExitCode != 0:
		if strings.Contains(se, "c14proc:") {
			fatal("simulation process failed: %s", tailS(se))
		}
		p.crash = &crashInfo{Class: "process-crash", Detail: fmt.Sprintf("exit status %d: %s", j.ExitCode, firstLine(se)), Stderr: tailS(se)}
	default:
		var r c14sim.ProcResult
		if err := drv.ReadJSON(p.cmd.Out, &r); err != nil {
			fatal("reading result of simulation process: %v\n%s", err, tailS(se))
		}
		p.res = &r
	}
	os.Remove(p.cmd.Out)
}

func tailS(s string) string {
	if len(s) > 6000 {
		return "…" + s[len(s)-6000:]
	}
	return s
}

// raceSummary extracts the two access lines and their first library frames.
func raceSummary(se string) string {
	var out []string
	lines := strings.Split(se, "\n")
	for i, l := range lines {
		t := strings.TrimSpace(l)
		if strings.HasPrefix(t, "Write at") || strings.HasPrefix(t, "Read at") || strings.HasPrefix(t, "Previous write at") || strings.HasPrefix(t, "Previous read at") {
			fn := ""
			for k := i + 1; k < len(lines) && k < i+12; k++ {
				f := strings.TrimSpace(lines[k])
				if strings.HasPrefix(f, "github.com/runreveal/pql") && !strings.Contains(f, "zzsimrt") && !strings.Contains(f, "zzverif") {
					fn = f
					if k+1 < len(lines) {
						loc := strings.TrimSpace(lines[k+1])
						if sp := strings.LastIndex(loc, "/"); sp >= 0 {
							loc = loc[sp+1:]
						}
						fn += " " + strings.Fields(loc + " ")[0]
					}
					break
				}
			}
			kind := strings.Fields(t)[0]
			if kind == "Previous" {
				kind = "previous " + strings.Fields(t)[1]
			}
			out = append(out, kind+" in "+fn)
		}
	}
	return strings.Join(out, " / ")
}

// readTrace parses the raw switch trace of a process.
func readTrace(path string) (lastRun int, sw []c14sim.SwitchEv) {
	b, err := os.ReadFile(path)
	if err != nil {
		return -1, nil
	}
	lastRun = -1
	for off := 0; off+40 <= len(b); off += 40 {
		task := int(int64(binary.LittleEndian.Uint64(b[off:])))
		kind := int(binary.LittleEndian.Uint64(b[off+8:]))
		y := binary.LittleEndian.Uint64(b[off+16:])
		site := uint32(binary.LittleEndian.Uint64(b[off+24:]))
		next := int(int64(binary.LittleEndian.Uint64(b[off+32:])))
		if task == -2 {
			lastRun = int(y)
			sw = nil
			continue
		}
		sw = append(sw, c14sim.SwitchEv{Task: task, Kind: kind, Yield: y, Site: site, Next: next, SiteName: siteName(site)})
	}
	return lastRun, sw
}

// ---- aggregate ----

type agg struct {
	procs, runs, calls, switches, preempts int
	yields                                 uint64
	strategies, probes                     map[string]int
	sigs, sigsNT                           map[uint64]bool
	pairs                                  map[uint64]bool
	digests                                map[uint64]string
	samples                                []any
	found                                  []*finding
	sweepPairs, sweepPoints, sweepCold     int
	numSites                               int
	clockJumps, timersFired, unowned       int
	simNanos                               int64
	stuck                                  []string
}

type finding struct {
	Class    string
	Detail   string
	ProcSeed uint64
	Specs    []c14sim.RunSpec
	V        *c14sim.Violation
	Stderr   string
	Pool     []*c14sim.Key
	Env      []string // lone-calls-disagree: the environment of the second process
}

func newAgg() *agg {
	return &agg{strategies: map[string]int{}, probes: map[string]int{}, sigs: map[uint64]bool{}, sigsNT: map[uint64]bool{}, pairs: map[uint64]bool{}, digests: map[uint64]string{}}
}

func (a *agg) add(p *procRun, pool []*c14sim.Key, eligible []int) {
	if p.pool != nil {
		pool, eligible = p.pool, p.eligible
	}
	a.procs++
	if p.crash != nil {
		// reconstruct the explicit case from the switch trace
		lastRun, sw := readTrace(p.cmd.TracePath)
		f := &finding{Class: p.crash.Class, Detail: p.crash.Detail, ProcSeed: p.cmd.Seed, Stderr: p.crash.Stderr, Pool: pool}
		if len(p.cmd.Explicit) > 0 {
			for j := 0; j <= lastRun && j < len(p.cmd.Explicit); j++ {
				f.Specs = append(f.Specs, p.cmd.Explicit[j])
			}
		} else {
			for j := 0; j <= lastRun; j++ {
				if p.cmd.History {
					f.Specs = append(f.Specs, c14sim.GenHistorySpec(p.cmd.Seed, j, pool, eligible))
				} else {
					f.Specs = append(f.Specs, c14sim.GenRunSpec(p.cmd.Seed, j, pool, eligible))
				}
			}
		}
		if n := len(f.Specs); n > 0 {
			if sw == nil {
				sw = []c14sim.SwitchEv{}
			}
			f.Specs[n-1].Strategy = "explicit(" + f.Specs[n-1].Strategy + ")"
			f.Specs[n-1].Explicit = sw
		}
		a.found = append(a.found, f)
		os.Remove(p.cmd.TracePath)
		return
	}
	os.Remove(p.cmd.TracePath)
	r := p.res
	a.runs += r.RunsDone
	a.calls += r.Calls
	a.switches += r.Switches
	a.preempts += r.Preempts
	a.yields += r.Yields
	a.numSites = r.NumSites
	a.unowned += r.UnownedChoices
	a.clockJumps += r.ClockJumps
	a.timersFired += r.TimersFired
	a.simNanos += r.SimNanos
	if r.Stuck != "" && len(a.stuck) < 5 {
		a.stuck = append(a.stuck, fmt.Sprintf("process seed %d: %s", r.Seed, r.Stuck))
	}
	for k, v := range r.Strategies {
		a.strategies[k] += v
	}
	for k, v := range r.Probes {
		a.probes[k] += v
	}
	for _, s := range r.Sigs {
		a.sigs[s] = true
	}
	for _, s := range r.SigsNontrivial {
		a.sigsNT[s] = true
	}
	for _, s := range r.FnPairs {
		a.pairs[s] = true
	}
	a.digests[r.Seed] = r.Digest
	if len(a.samples) < 3 {
		a.samples = append(a.samples, r.Samples...)
	}
	if r.Violation != nil {
		v := r.Violation
		a.found = append(a.found, &finding{Class: v.Class, Detail: v.Detail, ProcSeed: r.Seed, Specs: v.Specs, V: v, Pool: pool})
	}
}

func runProcs(a *agg, procs []*procRun, parallel int, pool []*c14sim.Key, eligible []int, stopOnFinding bool) {
	jobs := make([]*drv.Job, len(procs))
	byJob := map[*drv.Job]*procRun{}
	for i, p := range procs {
		jobs[i] = p.job
		byJob[p.job] = p
	}
	drv.RunPool(jobs, parallel, func(j *drv.Job) {
		p := byJob[j]
		p.finish()
		a.add(p, pool, eligible)
	}, func() bool { return stopOnFinding && len(a.found) >= 4 })
}

func main() {
	flag.Parse()
	if *procBin == "" || *refBin == "" || *work == "" || *sitesF == "" {
		fatal("-proc, -ref, -sites and -work are required")
	}
	if err := drv.ReadJSON(*sitesF, &sites); err != nil {
		fatal("%v", err)
	}
	loadEnvVars()
	parallel := *par
	if parallel <= 0 {
		parallel = runtime.NumCPU()
	}
	if *replay != "" {
		os.Exit(doReplay(*replay, parallel))
	}
	start := time.Now()
	base := *seedFlag
	fmt.Printf("C14 %s tier, VERIF_SEED=%d, %d parallel processes, %d yield sites, sync shims: %v\n", *tier, base, parallel, len(sites.Sites), sites.SyncShims)
	if len(sites.Unsupported) > 0 {
		fmt.Printf("note: constructs the scheduler does not control: %v\n", sites.Unsupported)
	}
	if len(sites.SimOwned) > 0 {
		fmt.Printf("note: clock / goroutine / channel constructs in the library, now owned by the simulator: %v\n", sites.SimOwned)
	}
	if len(sites.RangeCalls) > 0 {
		fmt.Printf("note: .Range( calls in the instrumented tree (determinism hazard if sync.Map): %v\n", sites.RangeCalls)
	}

	nGen := 120
	if *tier == "thorough" {
		nGen = 500
	}
	if fillable, skipped := c14sim.OptionFields(); len(fillable)+len(skipped) > 0 {
		fmt.Printf("note: CompileOptions has fields besides Parameters; calls that set them are added to the workload: %v; left at their zero value (type the harness cannot generate): %v\n", fillable, skipped)
	}
	pool := c14sim.GenPool(base, nGen)
	poolPath := filepath.Join(*work, "pool.json")
	excluded := referencePass(pool, poolPath, parallel)
	var eligible []int
	for i, k := range pool {
		if k.RefOK {
			eligible = append(eligible, i)
		}
	}
	if len(eligible) < 10 {
		fatal("only %d of %d pool keys have a reference result", len(eligible), len(pool))
	}
	refWall := time.Since(start).Seconds()
	fmt.Printf("pool: %d keys, %d excluded (reference call did not return), reference pass %.1f s\n", len(pool), excluded, refWall)

	if *selftest {
		os.Exit(doSelftestDeterminism(base, parallel, pool, eligible, poolPath))
	}
	// a bigger pool for the long sequential histories (state that only shows after many distinct inputs)
	bigGen := 4000
	if *tier == "thorough" {
		bigGen = 12000
	}
	bigPool := c14sim.GenPoolWide(prng.Derive(base, "c14-big-pool", 0), bigGen)
	bigPath := filepath.Join(*work, "pool-big.json")
	bigExcluded := referencePass(bigPool, bigPath, parallel)
	var bigEligible []int
	for i, k := range bigPool {
		if k.RefOK {
			bigEligible = append(bigEligible, i)
		}
	}
	excluded += bigExcluded
	fmt.Printf("long-history pool: %d keys, %d excluded\n", len(bigPool), bigExcluded)
	histProc := func(seed uint64, runs int) *procRun {
		p := newProc(c14sim.ProcCmd{PoolPath: bigPath, Seed: seed, Runs: runs, History: true}, 0, 10*time.Minute)
		p.pool, p.eligible = bigPool, bigEligible
		return p
	}

	if *oneSeed != 0 {
		p := newProc(c14sim.ProcCmd{PoolPath: poolPath, Seed: *oneSeed, Runs: *oneRuns, History: *oneHist, LogPath: filepath.Join(*work, "one.log")}, 0, 60*time.Second)
		drv.RunJob(p.job)
		fmt.Printf("exit=%d timedout=%v\nstderr: %s\n", p.job.ExitCode, p.job.TimedOut, tailS(string(p.job.Stderr)))
		os.Exit(0)
	}
	if old, _ := filepath.Glob(filepath.Join(*verif, "replays", fmt.Sprintf("C14-%d-*.json", base))); len(old) > 0 {
		for _, f := range old {
			os.Remove(f)
		}
	}
	a := newAgg()
	runsPer := 16
	var detSeeds []uint64
	switch *tier {
	case "quick":
		n := 5000
		if *quickN > 0 {
			n = *quickN
		}
		var procs []*procRun
		for i := 0; i < n; i++ {
			procs = append(procs, newProc(c14sim.ProcCmd{PoolPath: poolPath, Seed: procSeed(base, i), Runs: runsPer}, 0, 5*time.Minute))
		}
		// long sequential histories (thousands of calls per process)
		for i := 0; i < 64; i++ {
			procs = append(procs, histProc(prng.Derive(base, "c14-history-process", uint64(i)), 60))
		}
		detSeeds = []uint64{procSeed(base, 0), procSeed(base, 1), procSeed(base, 2)}
		runProcs(a, procs, parallel, pool, eligible, true)
		if len(a.found) == 0 {
			sweep(a, base, pool, eligible, poolPath, parallel, 24, 40)
		}
	case "thorough":
		b := *budgetS
		if b <= 0 {
			b = 1800
		}
		deadline := start.Add(time.Duration(b) * time.Second * 7 / 10)
		wave := 0
		for time.Now().Before(deadline) && len(a.found) == 0 {
			var procs []*procRun
			for i := 0; i < parallel*8; i++ {
				procs = append(procs, newProc(c14sim.ProcCmd{PoolPath: poolPath, Seed: procSeed(base, wave*100000+i), Runs: 24}, 0, 5*time.Minute))
			}
			for i := 0; i < parallel/2; i++ {
				procs = append(procs, histProc(prng.Derive(base, "c14-history-process", uint64(wave*100000+i)), 200))
			}
			runProcs(a, procs, parallel, pool, eligible, true)
			wave++
		}
		detSeeds = []uint64{procSeed(base, 0), procSeed(base, 1), procSeed(base, 2)}
		runsPer = 24
		if len(a.found) == 0 {
			sweep(a, base, pool, eligible, poolPath, parallel, 40, 60)
		}
	default:
		fatal("unknown tier %q", *tier)
	}

	if freeMode {
		determinismNote = "degraded mode: library-started goroutines run natively, executions are not reproducible bit for bit"
	}
	// reduced determinism obligation: re-execute 3 process seeds at GOMAXPROCS=1 and compare digests
	if len(a.found) == 0 && !freeMode {
		det := newAgg()
		var procs []*procRun
		for _, s := range detSeeds {
			procs = append(procs, newProc(c14sim.ProcCmd{PoolPath: poolPath, Seed: s, Runs: runsPer}, 1, 5*time.Minute))
		}
		runProcs(det, procs, parallel, pool, eligible, false)
		for s, d := range det.digests {
			if a.digests[s] == d {
				continue
			}
			// repeat both executions of that seed, one after the other, same GOMAXPROCS
			r1, r2 := newAgg(), newAgg()
			runProcs(r1, []*procRun{newProc(c14sim.ProcCmd{PoolPath: poolPath, Seed: s, Runs: runsPer}, 1, 5*time.Minute)}, 1, pool, eligible, false)
			runProcs(r2, []*procRun{newProc(c14sim.ProcCmd{PoolPath: poolPath, Seed: s, Runs: runsPer}, 1, 5*time.Minute)}, 1, pool, eligible, false)
			if r1.digests[s] == r2.digests[s] && r1.digests[s] != "" {
				fmt.Printf("note: process seed %d: the event log depends on GOMAXPROCS (%s at the default, %s at 1) but is reproducible at a fixed setting\n", s, a.digests[s], d)
				determinismNote = "event logs depend on GOMAXPROCS; reproducible at a fixed setting"
				continue
			}
			if len(sites.Unsupported) > 0 || r1.unowned+r2.unowned+a.unowned > 0 {
				// the tree under test contains sources of nondeterminism the simulator does not own: replays
				// of this tree may need repetition, but that is not a defect of the harness
				fmt.Printf("note: process seed %d is not reproducible (%s / %s); the library makes choices outside the simulator's control: %v, %d select statements with several ready cases / unordered map ranges\n", s, r1.digests[s], r2.digests[s], sites.Unsupported, r1.unowned+r2.unowned+a.unowned)
				determinismNote = "not reproducible: the library uses constructs outside the simulator's control"
				continue
			}
			fmt.Printf("HARNESS-NONDETERMINISM: process seed %d produced event-log digest %s, then %s\n", s, r1.digests[s], r2.digests[s])
			os.Exit(drv.ExitInconclusive)
		}
		a.found = append(a.found, det.found...)
	}

	// findings: minimise, verify, report
	findings, err := drv.LoadFindings(filepath.Join(*verif, "known_findings.txt"))
	if err != nil {
		fatal("%v", err)
	}
	a.found = append(a.found, loneDisagree...)
	sort.SliceStable(a.found, func(i, j int) bool { return a.found[i].ProcSeed < a.found[j].ProcSeed })
	seen := map[string]bool{}
	reported, known := 0, 0
	var lines []string
	for _, f := range a.found {
		if seen[f.Class] {
			continue
		}
		seen[f.Class] = true
		fp := pool
		if f.Pool != nil {
			fp = f.Pool
		}
		rf := finalize(f, base, fp, parallel)
		key := replayKey(rf)
		if kf := drv.MatchFinding(findings, "C14", rf.Class, key); kf != nil {
			fmt.Printf("KNOWN-FINDING: property=C14 class=%s key=%s %s\n", rf.Class, key, kf.Text)
			known++
			continue
		}
		path := filepath.Join(*verif, "replays", fmt.Sprintf("C14-%d-%d.json", base, reported))
		os.MkdirAll(filepath.Dir(path), 0o755)
		if err := drv.WriteJSON(path, rf); err != nil {
			fatal("%v", err)
		}
		fmt.Printf("  class=%s key=%s replay_verified=%v minimised=%v\n  %s\n", rf.Class, key, rf.ReplayVerified, rf.Minimised, rf.Detail)
		describe(rf)
		lines = append(lines, fmt.Sprintf("VIOLATION property=C14 replay=%s", path))
		reported++
	}
	wall := time.Since(start).Seconds()
	if !*noEvid {
		writeEvidence(a, base, wall, reported, known, parallel, len(pool)+len(bigPool), excluded, refWall)
	}
	fmt.Printf("C14: %d simulation processes (each starting cold), %d runs, %d calls, %d switches, %d distinct interleavings (%d with a switch between two tasks inside library calls), sweep: %d pairs / %d single-preemption points (%d cold), %.1f s\n",
		a.procs, a.runs, a.calls, a.switches, len(a.sigs), len(a.sigsNT), a.sweepPairs, a.sweepPoints, a.sweepCold, wall)
	if reported > 0 {
		for _, l := range lines {
			fmt.Println(l)
		}
		os.Exit(drv.ExitViolation)
	}
	if len(a.stuck) > 0 {
		for _, st := range a.stuck {
			fmt.Println("note: UNSUPPORTED-SYNC: tasks wait on channels that nothing inside the simulation serves:", st)
		}
		if !freeMode {
			// degrade: goroutines started by the library run natively, callers stay under the seeded scheduler
			fmt.Println("note: repeating the exploration in degraded mode (library-started goroutines run natively; schedules of the callers are still seeded, replays may need repetition)")
			cmd := exec.Command(os.Args[0], os.Args[1:]...)
			cmd.Env = append(os.Environ(), "ZZSIM_FREE_DAEMONS=1")
			cmd.Stdout, cmd.Stderr = os.Stdout, os.Stderr
			err := cmd.Run()
			if ee, ok := err.(*exec.ExitError); ok {
				os.Exit(ee.ExitCode())
			} else if err != nil {
				fatal("%v", err)
			}
			os.Exit(0)
		}
		os.Exit(drv.ExitInconclusive)
	}
	fmt.Println("C14 held on everything explored")
}

func describe(rf *ReplayFile) {
	n := len(rf.Runs)
	if n == 0 {
		for _, k := range rf.Pool {
			fmt.Printf("    %s(%q) params=%v\n", k.API, clip(k.Source, 100), k.Params)
		}
		return
	}
	last := rf.Runs[n-1]
	fmt.Printf("  %d run(s) in the process; failing run: %d task(s)\n", n, len(last.Tasks))
	for ti, ts := range last.Tasks {
		for _, cs := range ts.Calls {
			k := rf.Pool[cs.Key]
			fmt.Printf("    task %d: %s(%q) opts=%s params=%v\n", ti, k.API, clip(k.Source, 100), cs.Form, k.Params)
		}
	}
	for i, e := range last.Explicit {
		if i >= 10 {
			fmt.Printf("    … %d more switches\n", len(last.Explicit)-i)
			break
		}
		fmt.Printf("    switch: task %d %s at yield %d (%s) -> task %d\n", e.Task, kindName(e.Kind), e.Yield, e.SiteName, e.Next)
	}
	if rf.Expected != "" || rf.Observed != "" {
		fmt.Printf("  expected %s\n  observed %s\n", clip(rf.Expected, 300), clip(rf.Observed, 300))
	}
}

var kindNames = []string{"start", "preempt", "call-start", "call-end", "sync", "blocked", "release", "done"}

func kindName(k int) string {
	if k >= 0 && k < len(kindNames) {
		return kindNames[k]
	}
	return fmt.Sprint(k)
}

func clip(s string, n int) string {
	if len(s) > n {
		return s[:n] + "…"
	}
	return s
}

func replayKey(rf *ReplayFile) string {
	h := sha256.New()
	n := len(rf.Runs)
	if n > 0 {
		last := rf.Runs[n-1]
		for _, ts := range last.Tasks {
			for _, cs := range ts.Calls {
				k := rf.Pool[cs.Key]
				fmt.Fprintf(h, "%s|%s|", k.Sig(), cs.Form)
			}
			fmt.Fprint(h, "/")
		}
	}
	if n == 0 {
		for _, k := range rf.Pool {
			fmt.Fprintf(h, "%s|", k.Sig())
		}
	}
	fmt.Fprintf(h, "runs=%d", n)
	return fmt.Sprintf("%x", h.Sum(nil))[:16]
}

func mustJSON(v any) string {
	b, _ := json.Marshal(v)
	return string(b)
}
