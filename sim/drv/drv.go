// Package drv holds what the C14 and C16 drivers share: a bounded process pool,
// the evidence file, the known-findings file.
package drv

import (
	"bufio"
	"encoding/json"
	"fmt"
	"os"
	"os/exec"
	"strings"
	"sync"
	"syscall"
	"time"
)

// Exit codes (DESIGN.md §3.6).
const (
	ExitHeld         = 0
	ExitViolation    = 1
	ExitInconclusive = 2
)

// Job is one child process.
type Job struct {
	Name    string
	Argv    []string
	Env     []string // appended to os.Environ()
	Dir     string
	Timeout time.Duration
	Stdin   []byte
	// results
	Err      error
	ExitCode int
	TimedOut bool
	Stdout   []byte
	Stderr   []byte
	Wall     time.Duration
}

// RunJob executes one job synchronously.
func RunJob(j *Job) {
	start := time.Now()
	cmd := exec.Command(j.Argv[0], j.Argv[1:]...)
	cmd.Env = append(os.Environ(), j.Env...)
	cmd.Dir = j.Dir
	var so, se strings.Builder
	cmd.Stdout = &so
	cmd.Stderr = &se
	if j.Stdin != nil {
		cmd.Stdin = strings.NewReader(string(j.Stdin))
	}
	cmd.SysProcAttr = &syscall.SysProcAttr{Setpgid: true, Pdeathsig: syscall.SIGKILL}
	if err := cmd.Start(); err != nil {
		j.Err = err
		j.ExitCode = -1
		return
	}
	done := make(chan error, 1)
	go func() { done <- cmd.Wait() }()
	var timer <-chan time.Time
	if j.Timeout > 0 {
		timer = time.After(j.Timeout)
	}
	select {
	case err := <-done:
		j.Err = err
	case <-timer:
		syscall.Kill(-cmd.Process.Pid, syscall.SIGKILL)
		j.Err = <-done
		j.TimedOut = true
	}
	j.ExitCode = cmd.ProcessState.ExitCode()
	j.Stdout, j.Stderr = []byte(so.String()), []byte(se.String())
	j.Wall = time.Since(start)
}

// RunPool runs jobs with at most par in flight; each(j) is called (serialised) as jobs finish.
// If stop returns true no further jobs are started.
func RunPool(jobs []*Job, par int, each func(*Job), stop func() bool) {
	var mu sync.Mutex
	var wg sync.WaitGroup
	next := 0
	for w := 0; w < par; w++ {
		wg.Add(1)
		go func() {
			defer wg.Done()
			for {
				mu.Lock()
				if next >= len(jobs) || (stop != nil && stop()) {
					mu.Unlock()
					return
				}
				j := jobs[next]
				next++
				mu.Unlock()
				RunJob(j)
				mu.Lock()
				if each != nil {
					each(j)
				}
				mu.Unlock()
			}
		}()
	}
	wg.Wait()
}

// Evidence is /verif/evidence/<id>.json (EVIDENCE.schema.json).
type Evidence struct {
	PropertyID  string         `json:"property_id"`
	Tier        string         `json:"tier"`
	Seed        int64          `json:"seed"`
	Level       string         `json:"level"`
	Coverage    map[string]any `json:"coverage"`
	Assumptions []string       `json:"assumptions"`
	WallS       float64        `json:"wall_s"`
	Violations  int            `json:"violations"`
}

// WriteJSON writes v indented to path.
func WriteJSON(path string, v any) error {
	b, err := json.MarshalIndent(v, "", " ")
	if err != nil {
		return err
	}
	return os.WriteFile(path, append(b, '\n'), 0o644)
}

// ReadJSON reads path into v.
func ReadJSON(path string, v any) error {
	b, err := os.ReadFile(path)
	if err != nil {
		return err
	}
	return json.Unmarshal(b, v)
}

// Finding is one line of the known-findings file.
type Finding struct {
	Fixed    bool
	Property string
	Class    string // for "finding:" lines
	Key      string // for "finding:" lines: identifies the specific failing case ("*" is not allowed)
	Text     string
}

// LoadFindings parses /verif/known_findings.txt. Lines:
//
//	finding: property=<id> class=<violation class> key=<case key> <what fails>
//	fixed: property=<id> <commit> <what failed>
//
// A fixed entry suppresses nothing.
func LoadFindings(path string) ([]Finding, error) {
	f, err := os.Open(path)
	if err != nil {
		if os.IsNotExist(err) {
			return nil, nil
		}
		return nil, err
	}
	defer f.Close()
	var out []Finding
	sc := bufio.NewScanner(f)
	for sc.Scan() {
		line := strings.TrimSpace(sc.Text())
		if line == "" || strings.HasPrefix(line, "#") {
			continue
		}
		var fd Finding
		switch {
		case strings.HasPrefix(line, "fixed:"):
			fd.Fixed = true
			line = strings.TrimSpace(strings.TrimPrefix(line, "fixed:"))
		case strings.HasPrefix(line, "finding:"):
			line = strings.TrimSpace(strings.TrimPrefix(line, "finding:"))
		default:
			return nil, fmt.Errorf("known findings: unrecognised line %q", line)
		}
		fields := strings.Fields(line)
		rest := []string{}
		for _, fl := range fields {
			switch {
			case strings.HasPrefix(fl, "property=") && fd.Property == "":
				fd.Property = strings.TrimPrefix(fl, "property=")
			case strings.HasPrefix(fl, "class=") && fd.Class == "" && !fd.Fixed:
				fd.Class = strings.TrimPrefix(fl, "class=")
			case strings.HasPrefix(fl, "key=") && fd.Key == "" && !fd.Fixed:
				fd.Key = strings.TrimPrefix(fl, "key=")
			default:
				rest = append(rest, fl)
			}
		}
		fd.Text = strings.Join(rest, " ")
		if !fd.Fixed && (fd.Class == "" || fd.Key == "" || fd.Key == "*") {
			return nil, fmt.Errorf("known findings: a finding needs class= and a specific key=: %q", line)
		}
		out = append(out, fd)
	}
	return out, sc.Err()
}

// MatchFinding returns the listed (unfixed) finding for (property, class, key), if any.
func MatchFinding(fs []Finding, property, class, key string) *Finding {
	for i := range fs {
		f := &fs[i]
		if !f.Fixed && f.Property == property && f.Class == class && f.Key == key {
			return f
		}
	}
	return nil
}
