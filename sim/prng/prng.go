// Package prng is the single source of every choice made by the simulations:
// splitmix64 for seeding/derivation, xoshiro256** for streams. It does not use
// math/rand so that every installed Go toolchain yields the same stream.
package prng

// Mix is the splitmix64 finaliser.
func Mix(x uint64) uint64 {
	x += 0x9e3779b97f4a7c15
	x = (x ^ (x >> 30)) * 0xbf58476d1ce4e5b9
	x = (x ^ (x >> 27)) * 0x94d049bb133111eb
	return x ^ (x >> 31)
}

// Derive hashes (seed, purpose, index) into a sub-stream seed, so that adding a
// draw in one component never shifts the choices of another.
func Derive(seed uint64, purpose string, index uint64) uint64 {
	h := Mix(seed)
	for i := 0; i < len(purpose); i++ {
		h = Mix(h ^ uint64(purpose[i]))
	}
	return Mix(h ^ Mix(index))
}

// Rand is a xoshiro256** generator.
type Rand struct{ s [4]uint64 }

// New returns a generator seeded from seed via splitmix64.
func New(seed uint64) *Rand {
	r := &Rand{}
	x := seed
	for i := range r.s {
		x += 0x9e3779b97f4a7c15
		z := x
		z = (z ^ (z >> 30)) * 0xbf58476d1ce4e5b9
		z = (z ^ (z >> 27)) * 0x94d049bb133111eb
		r.s[i] = z ^ (z >> 31)
	}
	return r
}

// Sub returns an independent generator for (purpose, index).
func Sub(seed uint64, purpose string, index uint64) *Rand {
	return New(Derive(seed, purpose, index))
}

func rotl(x uint64, k uint) uint64 { return (x << k) | (x >> (64 - k)) }

// Uint64 returns the next 64 random bits.
func (r *Rand) Uint64() uint64 {
	s := &r.s
	result := rotl(s[1]*5, 7) * 9
	t := s[1] << 17
	s[2] ^= s[0]
	s[3] ^= s[1]
	s[1] ^= s[2]
	s[0] ^= s[3]
	s[2] ^= t
	s[3] = rotl(s[3], 45)
	return result
}

// Intn returns a value in [0, n). n must be > 0.
func (r *Rand) Intn(n int) int {
	if n <= 0 {
		panic("prng: Intn with n <= 0")
	}
	return int(r.Uint64() % uint64(n))
}

// Range returns a value in [lo, hi] inclusive.
func (r *Rand) Range(lo, hi int) int {
	if hi < lo {
		panic("prng: Range with hi < lo")
	}
	return lo + r.Intn(hi-lo+1)
}

// Chance reports true with probability num/den.
func (r *Rand) Chance(num, den int) bool { return r.Intn(den) < num }

// Float64 returns a value in [0,1).
func (r *Rand) Float64() float64 { return float64(r.Uint64()>>11) / (1 << 53) }

// Pick returns a random element index weighted by w (all >= 0, sum > 0).
func (r *Rand) Pick(w []int) int {
	sum := 0
	for _, x := range w {
		sum += x
	}
	k := r.Intn(sum)
	for i, x := range w {
		if k < x {
			return i
		}
		k -= x
	}
	return len(w) - 1
}

// Shuffle permutes n elements using swap.
func (r *Rand) Shuffle(n int, swap func(i, j int)) {
	for i := n - 1; i > 0; i-- {
		j := r.Intn(i + 1)
		swap(i, j)
	}
}
