package c16sim

import (
	"crypto/sha256"
	"fmt"
	"hash"
	"io"
	"strings"
	"sync"
)

// EventLog receives every observable event of a simulated execution. It only hashes (and optionally
// writes) — it never draws from a PRNG or reads a clock. A tool under test may read its input in a
// goroutine of its own, so events arrive on two streams (what the reader side did: R/C lines; what the
// statement loop did: W/E lines). Each stream is deterministic, their interleaving is not the
// simulator's to decide; the log therefore keeps the streams apart within a case and emits them in a
// fixed order (reader stream first) when the case ends.
type EventLog struct {
	mu sync.Mutex
	h  hash.Hash
	w  io.Writer // optional full log
	N  int
	rs []string // reader-side events of the current case
	ws []string // writer-side events of the current case
}

// NewEventLog returns a log hashing into sha256, copying lines to w if non-nil.
func NewEventLog(w io.Writer) *EventLog { return &EventLog{h: sha256.New(), w: w} }

func (l *EventLog) emit(s string) {
	l.h.Write([]byte(s))
	l.h.Write([]byte{'\n'})
	l.N++
	if l.w != nil {
		io.WriteString(l.w, s)
		io.WriteString(l.w, "\n")
	}
}

// Add records one event line.
func (l *EventLog) Add(format string, args ...any) {
	if l == nil {
		return
	}
	s := fmt.Sprintf(format, args...)
	l.mu.Lock()
	defer l.mu.Unlock()
	switch {
	case strings.HasPrefix(s, "R ") || strings.HasPrefix(s, "C "):
		l.rs = append(l.rs, s)
	case strings.HasPrefix(s, "W ") || strings.HasPrefix(s, "E "):
		l.ws = append(l.ws, s)
	default:
		// a structural line (SEED, SCRIPT, CASE, RET) ends the streams collected so far
		for _, x := range l.rs {
			l.emit(x)
		}
		for _, x := range l.ws {
			l.emit(x)
		}
		l.rs, l.ws = l.rs[:0], l.ws[:0]
		l.emit(s)
	}
}

// Digest returns the hex digest of everything logged so far.
func (l *EventLog) Digest() string {
	l.mu.Lock()
	defer l.mu.Unlock()
	return fmt.Sprintf("%x", l.h.Sum(nil))
}

// simReader is the simulated disk/pipe behind one input file.
type simReader struct {
	id     int
	data   []byte
	pos    int
	steps  []Step
	si     int   // current step
	left   int   // bytes left in the current step (valid if armed)
	armed  bool  // current step loaded
	term   error // terminal condition already returned (io.EOF or ErrInjected)
	extra  int   // Read calls after the terminal condition
	reads  int
	closes int
	log    *EventLog
	mu     sync.Mutex // a tool may read its input in a goroutine of its own while the harness inspects the reader
}

func newSimReader(id int, data []byte, steps []Step, log *EventLog) *simReader {
	return &simReader{id: id, data: data, steps: steps, log: log}
}

func (r *simReader) Read(p []byte) (n int, err error) {
	r.mu.Lock()
	defer r.mu.Unlock()
	r.reads++
	defer func() { r.log.Add("R f=%d len=%d n=%d err=%v", r.id, len(p), n, err) }()
	if r.term != nil {
		r.extra++
		return 0, r.term
	}
	if len(p) == 0 {
		return 0, nil
	}
	for {
		if r.si >= len(r.steps) {
			// plan exhausted: deliver the rest as large as allowed, then EOF
			if r.pos >= len(r.data) {
				r.term = io.EOF
				return 0, io.EOF
			}
			n = copy(p, r.data[r.pos:])
			r.pos += n
			return n, nil
		}
		st := r.steps[r.si]
		if !r.armed {
			r.left = st.N
			if rem := len(r.data) - r.pos; r.left > rem {
				r.left = rem
			}
			r.armed = true
		}
		n = r.left
		if n > len(p) {
			n = len(p)
		}
		copy(p, r.data[r.pos:r.pos+n])
		r.pos += n
		r.left -= n
		if r.left > 0 {
			return n, nil // the caller's buffer was smaller than the step: continue it next time
		}
		r.si++
		r.armed = false
		switch st.Err {
		case "ERR":
			r.term = ErrInjected
			return n, ErrInjected
		case "EOF":
			if r.pos >= len(r.data) {
				r.term = io.EOF
				return n, io.EOF
			}
		}
		return n, nil // may be (0, nil): an empty read
	}
}

// counters returns (reads, reads after the end, closes) under the lock.
func (r *simReader) counters() (int, int, int) {
	r.mu.Lock()
	defer r.mu.Unlock()
	return r.reads, r.extra, r.closes
}

func (r *simReader) Close() error {
	r.mu.Lock()
	defer r.mu.Unlock()
	r.closes++
	r.log.Add("C f=%d", r.id)
	return nil
}

// recWriter is the recording writer (never faulted, DESIGN.md §5.6).
type recWriter struct {
	buf    []byte
	writes int
	log    *EventLog
	mu     sync.Mutex
}

func (w *recWriter) snapshot() (string, int) {
	w.mu.Lock()
	defer w.mu.Unlock()
	return string(w.buf), w.writes
}

func (w *recWriter) Write(p []byte) (int, error) {
	w.mu.Lock()
	defer w.mu.Unlock()
	w.writes++
	w.buf = append(w.buf, p...)
	w.log.Add("W len=%d sum=%x", len(p), sha256.Sum256(p))
	return len(p), nil
}
