package c16sim

import (
	"context"
	"fmt"
	"io"
	"runtime/debug"
	"time"
)

// HangTimeout is the wall-clock watchdog for one execution of run. Executions take microseconds
// to milliseconds; only a call that never returns trips it. It decides nothing else.
var HangTimeout = 30 * time.Second

// Hooks are the real pieces of cmd/pql under test.
type Hooks struct {
	Run   RunFunc
	Multi MultiFunc // nil if the multiReadCloser sub-leg could not be built
}

// Execute runs the real run function on the case with the simulated reader(s).
func Execute(h Hooks, c Case, log *EventLog) (out Outcome) {
	log.Add("CASE files=%d multi=%v len=%d", len(c.Files), c.Multi, len(c.Input))
	var readers []*simReader
	off := 0
	for i, f := range c.Files {
		readers = append(readers, newSimReader(i, c.Input[off:off+f.Len], f.Steps, log))
		off += f.Len
	}
	var in io.Reader
	if len(readers) == 1 && !c.Multi {
		in = readers[0]
	} else {
		if h.Multi == nil {
			panic("c16sim: multi-file case but multiReadCloser leg not built")
		}
		rcs := make([]io.ReadCloser, len(readers))
		for i, r := range readers {
			rcs[i] = r
		}
		in = h.Multi(rcs)
	}
	w := &recWriter{log: log}
	done := make(chan struct{})
	go func() {
		defer close(done)
		defer func() {
			if p := recover(); p != nil {
				out.Panic = fmt.Sprintf("%v\n%s", p, debug.Stack())
			}
		}()
		err := h.Run(context.Background(), w, in, func(e error) {
			out.Sink++
			msg := "<nil>"
			if e != nil {
				msg = e.Error()
			}
			if len(out.SinkMsgs) < 8 {
				out.SinkMsgs = append(out.SinkMsgs, msg)
			}
			log.Add("E %s", msg)
		})
		if err != nil {
			out.RetErr = err.Error()
			if out.RetErr == "" {
				out.RetErr = "<empty error text>"
			}
		}
	}()
	timer := time.NewTimer(HangTimeout)
	select {
	case <-done:
		timer.Stop()
	case <-timer.C:
		// run is still executing in its goroutine: nothing it owns may be touched any more
		log.Add("RET hang")
		return Outcome{Hang: true}
	}
	out.Stdout, out.Writes = w.snapshot()
	for _, r := range readers {
		reads, extra, closes := r.counters()
		out.Reads += reads
		out.ExtraReads += extra
		out.Closes = append(out.Closes, closes)
	}
	log.Add("RET err=%q sink=%d stdout=%d panic=%v", out.RetErr, out.Sink, len(out.Stdout), out.Panic != "")
	return out
}
