package c16sim

import (
	"bytes"
	"context"
	"encoding/json"
	"fmt"
	"io"
	"os"
	"os/exec"
	"runtime/debug"
	"strings"
	"sync"
	"syscall"
	"time"
)

// HangTimeout is the wall-clock watchdog for one execution of run. Executions take microseconds
// to milliseconds; only a call that never returns trips it. It decides nothing else.
var HangTimeout = 30 * time.Second

// Hooks are the real pieces of cmd/pql under test.
type Hooks struct {
	Run   RunFunc
	Multi MultiFunc // nil if the multiReadCloser sub-leg could not be built
	// Sched runs body as the one caller task of a simulation of the instrumented cmd/pql under the
	// schedule derived from seed and reports how it ended ("", "deadlock", "budget", "stuck").
	// nil except in the scheduled leg's binary.
	Sched func(seed uint64, body func()) (kind, detail string)
}

// IsolateExec makes every execution happen in a process of its own (a child running this same test
// binary on exactly one case). The command-line tool translates one input per process; a tree that
// keeps the state of that translation in package-level variables of cmd/pql is correct as a tool, but
// calling its run function many times in one process would carry that state from case to case. The
// driver switches this on when it finds that the outcome of a case depends on what ran before it in
// the same process (DESIGN.md §8 item 23).
var IsolateExec bool

// ExecOneEnv is the value of ZZSIM_CMD that makes the test binary execute one case from standard input.
const ExecOneEnv = "@exec-one"

// Execute runs the real run function on the case with the simulated reader(s).
func Execute(h Hooks, c Case, log *EventLog) (out Outcome) {
	if IsolateExec {
		return executeIsolated(c, log)
	}
	return executeHere(h, c, log)
}

// ExecOne is the child side of an isolated execution.
func ExecOne(h Hooks) int {
	b, err := io.ReadAll(os.Stdin)
	if err != nil {
		fmt.Fprintln(os.Stderr, "c16sim:", err)
		return 2
	}
	var c Case
	if err := json.Unmarshal(b, &c); err != nil {
		fmt.Fprintln(os.Stderr, "c16sim:", err)
		return 2
	}
	o := executeHere(h, c, nil)
	ob, err := json.Marshal(toWire(o))
	if err != nil {
		fmt.Fprintln(os.Stderr, "c16sim:", err)
		return 2
	}
	fmt.Printf("\nZZOUT %s\n", ob)
	return 0
}

// wireOutcome carries an Outcome between processes. The texts travel as bytes: what the tool wrote
// need not be valid UTF-8, and JSON strings would replace such bytes.
type wireOutcome struct {
	O        Outcome
	Stdout   []byte
	RetErr   []byte
	Panic    []byte
	SinkMsgs [][]byte
}

func toWire(o Outcome) wireOutcome {
	w := wireOutcome{O: o, Stdout: []byte(o.Stdout), RetErr: []byte(o.RetErr), Panic: []byte(o.Panic)}
	for _, m := range o.SinkMsgs {
		w.SinkMsgs = append(w.SinkMsgs, []byte(m))
	}
	w.O.Stdout, w.O.RetErr, w.O.Panic, w.O.SinkMsgs = "", "", "", nil
	return w
}

func (w wireOutcome) outcome() Outcome {
	o := w.O
	o.Stdout, o.RetErr, o.Panic = string(w.Stdout), string(w.RetErr), string(w.Panic)
	for _, m := range w.SinkMsgs {
		o.SinkMsgs = append(o.SinkMsgs, string(m))
	}
	return o
}

func executeIsolated(c Case, log *EventLog) Outcome {
	log.Add("CASE files=%d multi=%v len=%d", len(c.Files), c.Multi, len(c.Input))
	cb, err := json.Marshal(c)
	if err != nil {
		panic(err)
	}
	ctx, cancel := context.WithTimeout(context.Background(), HangTimeout+20*time.Second)
	defer cancel()
	cmd := exec.CommandContext(ctx, os.Args[0], "-test.run", "^TestZZSimC16$", "-test.timeout", "0")
	for _, e := range os.Environ() {
		if !strings.HasPrefix(e, "ZZSIM_CMD=") {
			cmd.Env = append(cmd.Env, e)
		}
	}
	cmd.Env = append(cmd.Env, "ZZSIM_CMD="+ExecOneEnv)
	cmd.Stdin = bytes.NewReader(cb)
	cmd.SysProcAttr = &syscall.SysProcAttr{Pdeathsig: syscall.SIGKILL}
	var stdout, stderr bytes.Buffer
	cmd.Stdout, cmd.Stderr = &stdout, &stderr
	runErr := cmd.Run()
	if ctx.Err() != nil {
		log.Add("RET hang")
		return Outcome{Hang: true}
	}
	var out Outcome
	found := false
	for _, l := range strings.Split(stdout.String(), "\n") {
		if strings.HasPrefix(l, "ZZOUT ") {
			var w wireOutcome
			if json.Unmarshal([]byte(l[len("ZZOUT "):]), &w) == nil {
				out = w.outcome()
				found = true
			}
		}
	}
	if !found {
		es := stderr.String()
		if len(es) > 2000 {
			es = es[:2000]
		}
		out = Outcome{Panic: fmt.Sprintf("the process executing the case ended without an outcome (%v): %s", runErr, es)}
	}
	if out.Hang {
		log.Add("RET hang")
		return out
	}
	log.Add("RET err=%q sink=%d stdout=%d panic=%v", out.RetErr, out.Sink, len(out.Stdout), out.Panic != "")
	return out
}

func executeHere(h Hooks, c Case, log *EventLog) (out Outcome) {
	log.Add("CASE files=%d multi=%v len=%d", len(c.Files), c.Multi, len(c.Input))
	var readers []*simReader
	off := 0
	for i, f := range c.Files {
		readers = append(readers, newSimReader(i, c.Input[off:off+f.Len], f.Steps, log))
		off += f.Len
	}
	var in io.Reader
	if len(readers) == 1 && !c.Multi {
		in = readers[0]
	} else {
		if h.Multi == nil {
			panic("c16sim: multi-file case but multiReadCloser leg not built")
		}
		rcs := make([]io.ReadCloser, len(readers))
		for i, r := range readers {
			rcs[i] = r
		}
		in = h.Multi(rcs)
	}
	w := &recWriter{log: log}
	var sinkMu sync.Mutex
	var sink int
	var sinkMsgs []string
	done := make(chan struct{})
	go func() {
		defer close(done)
		defer func() {
			if p := recover(); p != nil {
				out.Panic = fmt.Sprintf("%v\n%s", p, debug.Stack())
			}
		}()
		runBody := func() {
			defer func() {
				if p := recover(); p != nil {
					out.Panic = fmt.Sprintf("%v\n%s", p, debug.Stack())
				}
			}()
			err := h.Run(context.Background(), w, in, func(e error) {
				msg := "<nil>"
				if e != nil {
					msg = e.Error()
				}
				// (a tool with goroutines of its own may report from any of them, even after run returned)
				sinkMu.Lock()
				sink++
				if len(sinkMsgs) < 8 {
					sinkMsgs = append(sinkMsgs, msg)
				}
				sinkMu.Unlock()
				log.Add("E %s", msg)
			})
			if err != nil {
				out.RetErr = err.Error()
				if out.RetErr == "" {
					out.RetErr = "<empty error text>"
				}
			}
		}
		if c.Sched != 0 && h.Sched != nil {
			out.SchedOutcome, out.SchedDetail = h.Sched(c.Sched, runBody)
		} else {
			runBody()
		}
	}()
	timer := time.NewTimer(HangTimeout)
	select {
	case <-done:
		timer.Stop()
	case <-timer.C:
		// run is still executing in its goroutine: nothing it owns may be touched any more
		log.Add("RET hang")
		return Outcome{Hang: true}
	}
	out.Stdout, out.Writes = w.snapshot()
	sinkMu.Lock()
	out.Sink, out.SinkMsgs = sink, append([]string(nil), sinkMsgs...)
	sinkMu.Unlock()
	for _, r := range readers {
		reads, extra, closes := r.counters()
		out.Reads += reads
		out.ExtraReads += extra
		out.Closes = append(out.Closes, closes)
	}
	log.Add("RET err=%q sink=%d stdout=%d panic=%v", out.RetErr, out.Sink, len(out.Stdout), out.Panic != "")
	return out
}
