// Package c16sim is the in-process I/O-fault simulation of the pql command's
// line loop (property C16). The real run function and multiReadCloser are
// injected by a _test.go file dropped into cmd/pql of the scratch copy.
package c16sim

import (
	"context"
	"encoding/base64"
	"encoding/json"
	"errors"
	"fmt"
	"io"
	"strconv"
)

// RunFunc is the signature of cmd/pql's run.
type RunFunc func(ctx context.Context, output io.Writer, input io.Reader, logError func(error)) error

// MultiFunc builds cmd/pql's multiReadCloser from readers.
type MultiFunc func(readers []io.ReadCloser) io.ReadCloser

// Step is one Read call's dictated result: deliver N bytes, then Err.
// Err is "", "EOF" (final data delivered together with io.EOF) or "ERR"
// (a non-EOF read error, delivered with the data if N>0).
type Step struct {
	N   int    `json:"n"`
	Err string `json:"err,omitempty"`
}

// FileSpec is one input "file": its length and read plan. When the plan is
// exhausted the remaining bytes are delivered as large as the caller allows,
// followed by (0, io.EOF).
type FileSpec struct {
	Len   int    `json:"len"`
	Steps []Step `json:"steps,omitempty"`
}

// Case is one explicit, self-contained simulated execution.
type Case struct {
	Input []byte     `json:"-"`
	Files []FileSpec `json:"files"`
	// Multi: route through multiReadCloser even for a single file.
	Multi bool   `json:"multi"`
	Note  string `json:"note,omitempty"`
	// ProcLevel: the outcome was observed on the real binary; "reports" are stderr lines.
	ProcLevel bool `json:"proc_level,omitempty"`
	// Sched, if non-zero, is the seed of the schedule under which the tool's own goroutines run
	// (scheduled leg: cmd/pql instrumented like the library is for C14).
	Sched uint64 `json:"sched,omitempty"`
}

type caseJSON struct {
	InputB64  string     `json:"input_b64"`
	InputText string     `json:"input_text"`
	Files     []FileSpec `json:"files"`
	Multi     bool       `json:"multi"`
	Note      string     `json:"note,omitempty"`
	ProcLevel bool       `json:"proc_level,omitempty"`
	Sched     uint64     `json:"sched,omitempty"`
}

// MarshalJSON writes the input both as base64 (authoritative) and quoted text (for reading).
func (c Case) MarshalJSON() ([]byte, error) {
	txt := strconv.Quote(string(c.Input))
	if len(txt) > 4000 {
		txt = txt[:2000] + "…(" + strconv.Itoa(len(c.Input)) + " bytes)…" + txt[len(txt)-500:]
	}
	return json.Marshal(caseJSON{
		InputB64:  base64.StdEncoding.EncodeToString(c.Input),
		InputText: txt,
		Files:     c.Files,
		Multi:     c.Multi,
		Note:      c.Note,
		ProcLevel: c.ProcLevel,
		Sched:     c.Sched,
	})
}

// UnmarshalJSON reads the form written by MarshalJSON.
func (c *Case) UnmarshalJSON(b []byte) error {
	var j caseJSON
	if err := json.Unmarshal(b, &j); err != nil {
		return err
	}
	in, err := base64.StdEncoding.DecodeString(j.InputB64)
	if err != nil {
		return err
	}
	c.Input, c.Files, c.Multi, c.Note, c.ProcLevel, c.Sched = in, j.Files, j.Multi, j.Note, j.ProcLevel, j.Sched
	total := 0
	for _, f := range c.Files {
		total += f.Len
	}
	if total != len(in) {
		return fmt.Errorf("file lengths sum to %d, input has %d bytes", total, len(in))
	}
	return nil
}

// Clone returns a deep copy.
func (c Case) Clone() Case {
	d := Case{Input: append([]byte(nil), c.Input...), Multi: c.Multi, Note: c.Note, ProcLevel: c.ProcLevel, Sched: c.Sched}
	for _, f := range c.Files {
		d.Files = append(d.Files, FileSpec{Len: f.Len, Steps: append([]Step(nil), f.Steps...)})
	}
	return d
}

// ErrInjected is the non-EOF error the simulated reader returns.
var ErrInjected = errors.New("simulated read error")

// ErrK returns the number of input bytes delivered before the injected read
// error (a global offset), or -1 if the plan contains none.
func (c Case) ErrK() int {
	off := 0
	for _, f := range c.Files {
		rem := f.Len
		for _, s := range f.Steps {
			n := s.N
			if n > rem {
				n = rem
			}
			rem -= n
			if s.Err == "ERR" {
				return off + (f.Len - rem)
			}
			if s.Err == "EOF" && rem == 0 {
				break
			}
		}
		off += f.Len
	}
	return -1
}

// Outcome is what one execution of run produced.
type Outcome struct {
	Stdout     string   `json:"stdout"`
	Sink       int      `json:"sink_calls"`
	SinkMsgs   []string `json:"sink_msgs,omitempty"`
	RetErr     string   `json:"ret_err"` // "" = nil
	ExtraReads int      `json:"reads_after_end"`
	Reads      int      `json:"reads"`
	Writes     int      `json:"writes"`
	Panic      string   `json:"panic,omitempty"`
	// Hang: run had not returned when the wall-clock watchdog expired.
	Hang bool `json:"hang,omitempty"`
	// SchedOutcome: "" (returned), "deadlock", "budget" or "stuck" — scheduled leg only.
	SchedOutcome string `json:"sched_outcome,omitempty"`
	SchedDetail  string `json:"sched_detail,omitempty"`
	Closes       []int  `json:"closes,omitempty"`
}

// PlanString renders the read plan compactly: per file "len:[n n*k 0 n+ERR ...]".
func PlanString(c Case) string {
	out := ""
	for i, f := range c.Files {
		if i > 0 {
			out += " | "
		}
		out += fmt.Sprintf("file%d len=%d:", i, f.Len)
		if len(f.Steps) == 0 {
			out += " [as large as the caller allows, then EOF]"
			continue
		}
		for j := 0; j < len(f.Steps); {
			k := j
			for k < len(f.Steps) && f.Steps[k] == f.Steps[j] {
				k++
			}
			s := f.Steps[j]
			out += " " + strconv.Itoa(s.N)
			if s.Err != "" {
				out += "+" + s.Err
			}
			if k-j > 1 {
				out += "*" + strconv.Itoa(k-j)
			}
			j = k
		}
	}
	if c.Multi {
		out += " (through multiReadCloser)"
	}
	return out
}
