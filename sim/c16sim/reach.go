package c16sim

import (
	"fmt"
	"strings"

	"github.com/runreveal/pql"
	"github.com/runreveal/pql/parser"
	"github.com/runreveal/pql/zzverif/c16model"
)

// lineState is the abstract state of the line loop after a line, as computed by the model.
type lineState struct {
	pending string // none | blank | partial-query | partial-let | error-token
	prelude int    // 0, 1, 2 (= two or more)
	failed  bool
}

func (s lineState) String() string {
	return fmt.Sprintf("%s/p%d/f%v", s.pending, s.prelude, s.failed)
}

func pendingClass(text string) string {
	toks := parser.Scan(text)
	if len(toks) == 0 {
		if strings.TrimSpace(text) == "" {
			return "none"
		}
		return "blank"
	}
	for _, t := range toks {
		if t.Kind == parser.TokenError {
			return "error-token"
		}
	}
	if toks[0].Kind == parser.TokenIdentifier && toks[0].Value == "let" {
		return "partial-let"
	}
	return "partial-query"
}

func stateOf(m *c16model.Result) lineState {
	s := lineState{}
	for _, p := range m.Pieces {
		if !p.Terminated {
			s.pending = pendingClass(p.Text)
			continue
		}
		if p.Kind == c16model.PLet && p.OK {
			if s.prelude < 2 {
				s.prelude++
			}
		}
		if !p.OK {
			s.failed = true
		}
	}
	return s
}

// ScriptReach is the per-script reach information (independent of the transport).
type ScriptReach struct {
	// per line: start offset, end offset (exclusive, including the terminator), state before, event, state after
	Lines  []lineInfo
	Probes map[string]int
}

type lineInfo struct {
	Start, End int
	Before     lineState
	Event      string
	After      lineState
}

// AnalyseScript walks the script line by line through the model.
func AnalyseScript(mc *ModelCache) *ScriptReach {
	in := mc.in
	sr := &ScriptReach{Probes: map[string]int{}}
	prev := lineState{pending: "none"}
	prevTerm := 0
	start := 0
	for start < len(in) {
		if len(sr.Lines) >= 120 {
			break // reach accounting only: bounded so that huge scripts do not cost a model run per line
		}
		end := start
		for end < len(in) && in[end] != '\n' {
			end++
		}
		if end < len(in) {
			end++
		}
		m := mc.At(end)
		if m == nil {
			return sr
		}
		st := stateOf(m)
		term := len(m.Pieces) - 1
		done := term - prevTerm
		mask := map[string]bool{}
		for _, p := range m.Pieces[prevTerm:term] {
			switch {
			case p.Kind == c16model.PEmpty:
				mask["empty"] = true
			case p.Kind == c16model.PLet && p.OK:
				mask["let-ok"] = true
			case p.Kind == c16model.PLet:
				mask["let-fail"] = true
			case p.OK:
				mask["query-ok"] = true
			default:
				mask["query-fail"] = true
			}
		}
		ev := fmt.Sprintf("done=%d", min(done, 2))
		for _, k := range []string{"empty", "let-ok", "let-fail", "query-ok", "query-fail"} {
			if mask[k] {
				ev += "+" + k
			}
		}
		if done >= 2 {
			sr.Probes["two-or-more-statements-completed-by-one-line"]++
		}
		sr.Lines = append(sr.Lines, lineInfo{Start: start, End: end, Before: prev, Event: ev, After: st})
		prev, prevTerm, start = st, term, end
	}
	// whole-script probes
	m := mc.At(len(in))
	if m == nil {
		return sr
	}
	if m.D1 > 0 {
		sr.Probes["D1-empty-statement-between-semicolons"]++
	}
	if m.D2 {
		sr.Probes["D2-unterminated-trailing-let"]++
	}
	failedLets := map[string]bool{}
	sawFail, sawOKAfterFail := false, false
	for i, p := range m.Pieces {
		if strings.Count(strings.TrimSpace(p.Text), "\n") >= 2 && p.Kind != c16model.PEmpty {
			sr.Probes["statement-spanning-3-or-more-lines"]++
		}
		toks := parser.Scan(p.Text)
		if p.Kind == c16model.PLet && !p.OK && len(toks) > 1 && toks[1].Kind == parser.TokenIdentifier {
			failedLets[toks[1].Value] = true
		}
		if p.Kind == c16model.PQuery {
			for _, t := range toks {
				if t.Kind == parser.TokenIdentifier && failedLets[t.Value] {
					sr.Probes["failed-let-followed-by-use-of-its-name"]++
					break
				}
			}
			if p.OK && p.UsesPrelude {
				alone, err := pql.Compile(p.Text)
				if err != nil || alone != p.SQL {
					sr.Probes["query-whose-sql-depends-on-the-prelude"]++
					if !p.Terminated {
						sr.Probes["prelude-in-force-at-unterminated-final-query-using-a-bound-name"]++
					}
				}
			}
		}
		if !p.OK {
			sawFail = true
		} else if sawFail && p.Kind == c16model.PQuery {
			sawOKAfterFail = true
		}
		_ = i
	}
	if sawOKAfterFail {
		sr.Probes["failure-then-success-then-end-of-input"]++
	}
	return sr
}

// caseReaderClasses maps each line to the strongest reader behaviour that fell inside it.
func caseReaderClasses(c Case, sr *ScriptReach) []string {
	cls := make([]string, len(sr.Lines))
	for i := range cls {
		cls[i] = "clean"
	}
	rank := map[string]int{"clean": 0, "cut": 1, "empty-read": 2, "file-boundary": 3, "error": 4}
	mark := func(off int, what string) {
		// find the line containing offset off (a boundary at a line start belongs to that line)
		for i, l := range sr.Lines {
			if off >= l.Start && off < l.End {
				if rank[what] > rank[cls[i]] {
					cls[i] = what
				}
				return
			}
		}
	}
	off := 0
	for fi, f := range c.Files {
		if fi > 0 {
			mark(off, "file-boundary")
		}
		rem := f.Len
		pos := off
		for _, s := range f.Steps {
			n := s.N
			if n > rem {
				n = rem
			}
			if n == 0 && s.Err == "" {
				mark(pos, "empty-read")
			}
			rem -= n
			pos += n
			if s.Err == "ERR" {
				mark(pos, "error")
				break
			}
			if rem > 0 {
				mark(pos, "cut")
			}
		}
		off += f.Len
	}
	return cls
}
