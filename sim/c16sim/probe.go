package c16sim

import (
	"fmt"

	"github.com/runreveal/pql/zzverif/pqlgen"
	"github.com/runreveal/pql/zzverif/prng"
)

// ProbeResult says whether the outcome of a case depends on what was executed before it in the same
// process.
type ProbeResult struct {
	Cases        int  `json:"cases"`
	StateCarried bool `json:"state_carried"`
	// Nondeterministic: the same case gave two outcomes in two processes of its own (not a matter of state).
	Nondeterministic bool   `json:"nondeterministic,omitempty"`
	Detail           string `json:"detail,omitempty"`
}

func sameOutcome(a, b Outcome) bool {
	if a.Hang || b.Hang {
		return a.Hang == b.Hang
	}
	if a.Stdout != b.Stdout || a.Sink != b.Sink || a.RetErr != b.RetErr || (a.Panic != "") != (b.Panic != "") || len(a.SinkMsgs) != len(b.SinkMsgs) {
		return false
	}
	for i := range a.SinkMsgs {
		if a.SinkMsgs[i] != b.SinkMsgs[i] {
			return false
		}
	}
	return true
}

// Probe executes a sequence of generated cases one after the other in this process and each of them
// again in a process of its own, and compares. It judges nothing about the property: whether any of
// the outcomes is right is the business of the exploration that follows.
func Probe(h Hooks, seed uint64, multiOK bool) *ProbeResult {
	res := &ProbeResult{}
	var cases []Case
	fk := FaultKinds(map[string]int{})
	for si := 0; len(cases) < 60 && si < 200; si++ {
		r := prng.Sub(seed, "probe-script", uint64(si))
		scfg := pqlgen.DrawScriptConfig(r)
		scfg.Big, scfg.Fat, scfg.LongLine = false, false, false
		sc := pqlgen.GenScript(r, scfg)
		if len(sc.Bytes) > 4000 {
			continue
		}
		cases = append(cases, RandomCase(r, sc.Bytes, false, multiOK, fk), RandomCase(r, sc.Bytes, true, multiOK, fk))
	}
	res.Cases = len(cases)
	here := make([]Outcome, len(cases))
	for i, c := range cases {
		here[i] = executeHere(h, c, nil)
		if here[i].Hang {
			// the goroutine of that execution is still running: later outcomes in this process mean nothing
			cases, here = cases[:i], here[:i]
			break
		}
	}
	for i, c := range cases {
		alone := executeIsolated(c, nil)
		if !sameOutcome(here[i], alone) {
			if again := executeIsolated(c, nil); !sameOutcome(alone, again) {
				// two lone executions disagree: the tool's outcome depends on something other than what ran before
				res.Nondeterministic = true
				continue
			}
			res.StateCarried = true
			res.Detail = fmt.Sprintf("case %d of the probe sequence (input %q, read plan %s): after %d earlier executions in the same process run returned %q with %d report(s) and %d byte(s) of output; in a process of its own %q, %d, %d",
				i, clip(string(c.Input)), PlanString(c), i, here[i].RetErr, here[i].Sink, len(here[i].Stdout), alone.RetErr, alone.Sink, len(alone.Stdout))
			return res
		}
	}
	return res
}
