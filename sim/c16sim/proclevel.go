package c16sim

import (
	"bytes"
	"encoding/base64"
	"fmt"
	"io"
	"os"
	"os/exec"
	"path/filepath"
	"strings"
	"time"

	"github.com/runreveal/pql/zzverif/pqlgen"
	"github.com/runreveal/pql/zzverif/prng"
)

// ProcCase is one execution of the real pql binary (DESIGN.md §5.5).
type ProcCase struct {
	FilesB64 []string `json:"files_b64"`
	FilesTxt []string `json:"files_text"`
	// Mode: "stdin" (no args), "dash" (single "-"), "files", "files-with-dash" (file DashAt is fed on stdin and named "-").
	Mode   string `json:"mode"`
	DashAt int    `json:"dash_at"`
	// Out: "stdout", "ofile" (-o path), "odash" (-o -)
	Out string `json:"out"`
	// Order, if non-empty, is the sequence of file indices given as FILE arguments: a file may be named
	// more than once (its content is then read again) or the files may be given in another order.
	Order []int `json:"order,omitempty"`
	// StaleOut: with Out == "ofile" the output file already exists and holds this many bytes of old content.
	StaleOut int `json:"stale_out,omitempty"`
	// Fault: "", "dir" (a directory among the arguments: open succeeds, read fails with EISDIR),
	// "missing" (a path that does not exist), "stdin-dir" (standard input is a directory).
	Fault   string `json:"fault,omitempty"`
	FaultAt int    `json:"fault_at"`
	// StdinPipe, if non-empty, makes standard input a kernel PIPE instead of a regular file: the content is
	// written by this process in chunks of these sizes (cycled), so the tool meets genuine short reads, a
	// descriptor that cannot be stat-ed for a size or seeked, and EOF only when the writer closes.
	StdinPipe []int `json:"stdin_pipe_chunks,omitempty"`
}

// chunkReader hands out its data in chunks of the given sizes; os/exec copies each chunk to the child's
// stdin pipe with one write call.
type chunkReader struct {
	data   []byte
	chunks []int
	i      int
}

func (c *chunkReader) Read(p []byte) (int, error) {
	if len(c.data) == 0 {
		return 0, io.EOF
	}
	n := c.chunks[c.i%len(c.chunks)]
	c.i++
	if n < 1 {
		n = 1
	}
	if n > len(p) {
		n = len(p)
	}
	if n > len(c.data) {
		n = len(c.data)
	}
	copy(p, c.data[:n])
	c.data = c.data[n:]
	return n, nil
}

func (pc *ProcCase) files() [][]byte {
	var out [][]byte
	for _, s := range pc.FilesB64 {
		b, _ := base64.StdEncoding.DecodeString(s)
		out = append(out, b)
	}
	return out
}

// ordered returns the file contents in argument order.
func (pc *ProcCase) ordered() [][]byte {
	fs := pc.files()
	if len(pc.Order) == 0 {
		return fs
	}
	out := make([][]byte, 0, len(pc.Order))
	for _, i := range pc.Order {
		out = append(out, fs[i])
	}
	return out
}

func (pc *ProcCase) setFiles(fs [][]byte) {
	pc.FilesB64, pc.FilesTxt = nil, nil
	for _, f := range fs {
		pc.FilesB64 = append(pc.FilesB64, base64.StdEncoding.EncodeToString(f))
		pc.FilesTxt = append(pc.FilesTxt, clip(fmt.Sprintf("%q", f)))
	}
}

// JudgeCase returns the equivalent Case the oracle judges.
func (pc *ProcCase) JudgeCase() Case {
	fs := pc.ordered()
	var in []byte
	k := -1
	for i, f := range fs {
		if pc.Fault != "" && pc.Fault != "stdin-dir" && i == pc.FaultAt {
			k = len(in)
		}
		in = append(in, f...)
	}
	if pc.Fault == "stdin-dir" {
		k = 0
	} else if pc.Fault != "" && k < 0 {
		k = len(in)
	}
	c := Case{Input: in, ProcLevel: true, Note: "process-level " + pc.Mode + " " + pc.Out + " " + pc.Fault}
	if k >= 0 {
		c.Files = []FileSpec{{Len: len(in), Steps: cutSteps([]Step{{N: len(in)}}, k, false)}}
	} else {
		c.Files = []FileSpec{{Len: len(in)}}
	}
	return c
}

// ExecProc runs the binary on the case inside dir (which it creates and removes).
func ExecProc(bin, dir string, pc *ProcCase) (Outcome, string, error) {
	if err := os.MkdirAll(dir, 0o755); err != nil {
		return Outcome{}, "", err
	}
	defer os.RemoveAll(dir)
	raw := pc.files()
	for i, f := range raw {
		if err := os.WriteFile(filepath.Join(dir, fmt.Sprintf("f%d.pql", i)), f, 0o644); err != nil {
			return Outcome{}, "", err
		}
	}
	order := pc.Order
	if len(order) == 0 {
		for i := range raw {
			order = append(order, i)
		}
	}
	fs := pc.ordered()
	var args []string
	var stdinPath string
	for i := range fs {
		p := filepath.Join(dir, fmt.Sprintf("f%d.pql", order[i]))
		if (pc.Fault == "dir" || pc.Fault == "missing") && i == pc.FaultAt {
			args = append(args, faultPath(dir, pc.Fault))
		}
		switch {
		case pc.Mode == "stdin":
			stdinPath = p
		case pc.Mode == "dash":
			stdinPath = p
			args = append(args, "-")
		case pc.Mode == "files-with-dash" && i == pc.DashAt:
			stdinPath = p
			args = append(args, "-")
		default:
			args = append(args, p)
		}
	}
	if (pc.Fault == "dir" || pc.Fault == "missing") && pc.FaultAt >= len(fs) {
		args = append(args, faultPath(dir, pc.Fault))
	}
	outPath := ""
	stale := ""
	switch pc.Out {
	case "ofile":
		outPath = filepath.Join(dir, "out.sql")
		args = append([]string{"-o", outPath}, args...)
		if pc.StaleOut > 0 {
			stale = strings.Repeat("-- stale content of an earlier run;\n", pc.StaleOut/36+1)
			if err := os.WriteFile(outPath, []byte(stale), 0o644); err != nil {
				return Outcome{}, "", err
			}
		}
	case "odash":
		args = append([]string{"--output", "-"}, args...)
	}
	cmd := exec.Command(bin, args...)
	cmd.Dir = dir
	if pc.Fault == "stdin-dir" {
		d, err := os.Open(dir)
		if err != nil {
			return Outcome{}, "", err
		}
		defer d.Close()
		cmd.Stdin = d
	} else if stdinPath != "" && len(pc.StdinPipe) > 0 {
		b, err := os.ReadFile(stdinPath)
		if err != nil {
			return Outcome{}, "", err
		}
		cmd.Stdin = &chunkReader{data: b, chunks: pc.StdinPipe}
	} else if stdinPath != "" {
		f, err := os.Open(stdinPath)
		if err != nil {
			return Outcome{}, "", err
		}
		defer f.Close()
		cmd.Stdin = f
	}
	var so, se bytes.Buffer
	cmd.Stdout, cmd.Stderr = &so, &se
	if err := cmd.Start(); err != nil {
		return Outcome{}, "", err
	}
	done := make(chan error, 1)
	go func() { done <- cmd.Wait() }()
	select {
	case <-done:
	case <-time.After(20 * time.Second):
		cmd.Process.Kill()
		<-done
		return Outcome{Hang: true}, strings.Join(args, " "), nil
	}
	o := Outcome{}
	code := cmd.ProcessState.ExitCode()
	if code != 0 {
		o.RetErr = fmt.Sprintf("exit status %d", code)
	}
	if outPath != "" {
		b, err := os.ReadFile(outPath)
		if err == nil {
			o.Stdout = string(b)
			if stale != "" && o.Stdout == stale {
				// the tool gave up before touching the destination (e.g. an input could not be opened):
				// an untouched existing file means "nothing written"
				o.Stdout = ""
			}
		}
		if so.Len() > 0 {
			// with -o FILE nothing belongs on stdout; keep it visible to the oracle
			o.Stdout += "<<unexpected stdout>>" + so.String()
		}
	} else {
		o.Stdout = so.String()
	}
	for _, l := range strings.Split(se.String(), "\n") {
		if strings.TrimSpace(l) != "" {
			o.Sink++
			if len(o.SinkMsgs) < 8 {
				o.SinkMsgs = append(o.SinkMsgs, l)
			}
		}
	}
	return o, strings.Join(args, " "), nil
}

func faultPath(dir, kind string) string {
	if kind == "dir" {
		p := filepath.Join(dir, "a-directory")
		os.MkdirAll(p, 0o755)
		return p
	}
	return filepath.Join(dir, "no-such-file.pql")
}

// GenProcCase draws one process-level case.
func GenProcCase(r *prng.Rand, fk FaultKinds) *ProcCase {
	scfg := pqlgen.DrawScriptConfig(r)
	sc := pqlgen.GenScript(r, scfg)
	pc := &ProcCase{}
	lens := drawFiles(r, sc.Bytes, FaultKinds{})
	var fs [][]byte
	off := 0
	for _, l := range lens {
		fs = append(fs, sc.Bytes[off:off+l])
		off += l
	}
	if len(fs) == 1 {
		pc.Mode = []string{"stdin", "dash", "files"}[r.Intn(3)]
	} else {
		pc.Mode = "files"
		if r.Chance(1, 4) {
			pc.Mode = "files-with-dash"
			pc.DashAt = r.Intn(len(fs))
		}
	}
	if pc.Mode == "files" && r.Chance(1, 5) {
		// name a file twice / give the files in another order: the input is the concatenation in ARGUMENT order
		n := len(fs)
		for i := 0; i < n; i++ {
			pc.Order = append(pc.Order, i)
		}
		for extra := r.Range(1, 2); extra > 0; extra-- {
			at := r.Intn(len(pc.Order) + 1)
			pc.Order = append(pc.Order[:at], append([]int{r.Intn(n)}, pc.Order[at:]...)...)
		}
		fk["proc:file-argument-repeated"]++
	}
	pc.Out = []string{"stdout", "stdout", "ofile", "odash"}[r.Intn(4)]
	if pc.Out == "ofile" && r.Chance(1, 2) {
		pc.StaleOut = []int{10, 3000, 100000}[r.Intn(3)]
		fk["proc:output-file-exists-with-old-content"]++
	}
	if r.Chance(1, 4) {
		switch {
		case pc.Mode == "stdin" || pc.Mode == "dash":
			pc.Fault = "stdin-dir"
			fk["proc:stdin-is-a-directory"]++
		case r.Chance(1, 2):
			pc.Fault = "dir"
			pc.FaultAt = r.Intn(len(fs) + len(pc.Order)/2 + 1)
			fk["proc:directory-argument(EISDIR)"]++
		default:
			pc.Fault = "missing"
			pc.FaultAt = r.Intn(len(fs) + 1)
			fk["proc:missing-file"]++
		}
	}
	if pc.Fault != "stdin-dir" && pc.Mode != "files" && r.Chance(1, 2) {
		// standard input is a pipe fed in seeded chunks (cat script | pql ...)
		switch r.Intn(4) {
		case 0:
			pc.StdinPipe = []int{1 << 20}
		case 1:
			pc.StdinPipe = []int{r.Range(1, 7)}
		case 2:
			pc.StdinPipe = []int{4096, 1, r.Range(1, 4095)}
		default:
			for k := r.Range(2, 6); k > 0; k-- {
				pc.StdinPipe = append(pc.StdinPipe, []int{1, 2, 3, 17, 255, 4095, 4096, 4097, 65536}[r.Intn(9)])
			}
		}
		fk["proc:stdin-is-a-pipe(chunked writes)"]++
	}
	if sc.LongLineAt >= 0 {
		fk["proc:over-long-line"]++
	}
	fk["proc:mode-"+pc.Mode]++
	fk["proc:out-"+pc.Out]++
	pc.setFiles(fs)
	return pc
}
