package c16sim

import (
	"strings"
	"time"

	"github.com/runreveal/pql/parser"
)

// removeRange returns the case with input bytes [a,b) removed and every file
// length and read step shrunk by its overlap with the range.
func removeRange(c Case, a, b int) Case {
	d := Case{Multi: c.Multi, Note: c.Note, Sched: c.Sched}
	d.Input = append(append([]byte(nil), c.Input[:a]...), c.Input[b:]...)
	overlap := func(lo, hi int) int { // bytes of [lo,hi) inside [a,b)
		l, h := max(lo, a), min(hi, b)
		if h > l {
			return h - l
		}
		return 0
	}
	off := 0
	for _, f := range c.Files {
		nf := FileSpec{Len: f.Len - overlap(off, off+f.Len)}
		pos := off
		rem := f.Len
		for _, s := range f.Steps {
			n := min(s.N, rem)
			ns := Step{N: n - overlap(pos, pos+n), Err: s.Err}
			if n > 0 && ns.N == 0 && ns.Err == "" {
				// the whole step vanished: do not turn it into an empty read
			} else {
				nf.Steps = append(nf.Steps, ns)
			}
			pos += n
			rem -= n
		}
		d.Files = append(d.Files, nf)
		off += f.Len
	}
	return d
}

// replaceRange substitutes input[a:b) by repl (len(repl) <= b-a is not required).
func replaceRange(c Case, a, b int, repl []byte) Case {
	if len(repl) > b-a {
		return c
	}
	// shrink to the replacement's length first, then overwrite in place
	d := removeRange(c, a+len(repl), b)
	copy(d.Input[a:], repl)
	return d
}

// Minimise greedily reduces a violating case while the same violation class persists.
func Minimise(h Hooks, c Case, class string, maxAttempts int) (Case, int) {
	attempts := 0
	if class == "tool-does-not-terminate" {
		// every reproducing attempt leaves a goroutine that never returns: do not minimise in-process
		return c.Clone(), 0
	}
	deadline := time.Now().Add(45 * time.Second) // bounds the minimiser only; decides nothing
	still := func(cand Case) bool {
		if attempts >= maxAttempts || time.Now().After(deadline) {
			return false
		}
		attempts++
		total := 0
		for _, f := range cand.Files {
			total += f.Len
		}
		if total != len(cand.Input) {
			return false
		}
		if (len(cand.Files) > 1 || cand.Multi) && h.Multi == nil {
			return false
		}
		if hasParenExpr(cand.Input) {
			return false // never construct inputs on which the pinned library does not return (DESIGN.md §3.6)
		}
		o := Execute(h, cand, nil)
		v := Judge(cand, NewModelCache(cand.Input), o)
		return v.Inconclusive == "" && v.Class == class
	}
	cur := c.Clone()
	try := func(cand Case) bool {
		if still(cand) {
			cur = cand
			return true
		}
		return false
	}

	for round := 0; round < 4; round++ {
		before := len(cur.Input) + planSize(cur)

		// 1. transport: one file, plain plan (keeping the fault offset)
		if len(cur.Files) > 1 || cur.Multi || planSize(cur) > 2 {
			k := cur.ErrK()
			n := len(cur.Input)
			simple := Case{Input: cur.Input, Note: cur.Note, Sched: cur.Sched}
			if k >= 0 {
				simple.Files = []FileSpec{{Len: n, Steps: cutSteps([]Step{{N: n}}, k, false)}}
			} else {
				simple.Files = []FileSpec{{Len: n}}
			}
			if !try(simple) {
				// keep files, simplify plans individually
				for i := range cur.Files {
					cand := cur.Clone()
					hasErr := false
					for _, s := range cand.Files[i].Steps {
						if s.Err == "ERR" {
							hasErr = true
						}
					}
					if !hasErr {
						cand.Files[i].Steps = nil
						try(cand)
					}
				}
				// merge adjacent files
				for i := 0; i+1 < len(cur.Files); {
					cand := cur.Clone()
					a, b := cand.Files[i], cand.Files[i+1]
					hasErr := false
					for _, s := range a.Steps {
						if s.Err == "ERR" {
							hasErr = true
						}
					}
					if hasErr {
						i++
						continue
					}
					var steps []Step
					for _, s := range a.Steps {
						steps = append(steps, Step{N: s.N})
					}
					if len(a.Steps) == 0 && a.Len > 0 {
						steps = append(steps, Step{N: a.Len})
					}
					merged := FileSpec{Len: a.Len + b.Len, Steps: append(steps, b.Steps...)}
					if len(b.Steps) == 0 {
						merged.Steps = steps
						if b.Len > 0 {
							merged.Steps = append(merged.Steps, Step{N: b.Len})
						}
					}
					cand.Files = append(append(cand.Files[:i:i], merged), cand.Files[i+2:]...)
					if !try(cand) {
						i++
					}
				}
				// drop / merge steps
				for fi := range cur.Files {
					for si := 0; si < len(cur.Files[fi].Steps); {
						cand := cur.Clone()
						st := cand.Files[fi].Steps
						if st[si].Err != "" {
							si++
							continue
						}
						if si+1 < len(st) {
							st[si+1].N += st[si].N
						} else if st[si].N > 0 {
							si++
							continue
						}
						cand.Files[fi].Steps = append(st[:si:si], st[si+1:]...)
						if !try(cand) {
							si++
						}
					}
				}
			}
		}

		// 2. drop whole statements (with their semicolon): delta debugging over contiguous groups
		stmtRanges := func() [][2]int {
			toks := parser.Scan(string(cur.Input))
			start := 0
			var ranges [][2]int
			for _, tk := range toks {
				if tk.Kind == parser.TokenSemi {
					ranges = append(ranges, [2]int{start, tk.Span.End})
					start = tk.Span.End
				}
			}
			if start < len(cur.Input) {
				ranges = append(ranges, [2]int{start, len(cur.Input)})
			}
			return ranges
		}
		for chunk := (len(stmtRanges()) + 1) / 2; chunk >= 1; {
			ranges := stmtRanges()
			progress := false
			for i := len(ranges) - chunk; i >= 0; i -= chunk {
				if try(removeRange(cur, ranges[i][0], ranges[i+chunk-1][1])) {
					progress = true
					break
				}
			}
			if !progress {
				if chunk == 1 {
					break
				}
				chunk /= 2
			} else if n := len(stmtRanges()); chunk > n {
				chunk = n
				if chunk == 0 {
					break
				}
			}
		}

		// 3. drop comments and surplus white space; shorten long literals
		for {
			progress := false
			toks := parser.Scan(string(cur.Input))
			prevEnd := 0
			for i := len(toks); i >= 0; i-- {
				// gap before token i (or trailing gap)
				var gs, ge int
				if i == len(toks) {
					if len(toks) == 0 {
						gs, ge = 0, len(cur.Input)
					} else {
						gs, ge = toks[len(toks)-1].Span.End, len(cur.Input)
					}
				} else {
					ge = toks[i].Span.Start
					if i == 0 {
						gs = 0
					} else {
						gs = toks[i-1].Span.End
					}
				}
				_ = prevEnd
				if ge-gs == 0 {
					continue
				}
				gap := string(cur.Input[gs:ge])
				var repl string
				switch {
				case strings.Contains(gap, "\n"):
					repl = "\n"
				default:
					repl = " "
				}
				if gap != repl && try(replaceRange(cur, gs, ge, []byte(repl))) {
					progress = true
					break
				}
				if gap == "\n" && try(replaceRange(cur, gs, ge, []byte(" "))) {
					progress = true
					break
				}
			}
			if !progress {
				break
			}
		}

		// 4. drop single tokens from the end of statements (operators), token by token
		for {
			progress := false
			toks := parser.Scan(string(cur.Input))
			for i := len(toks) - 1; i >= 0; i-- {
				if toks[i].Kind == parser.TokenSemi {
					continue
				}
				if try(removeRange(cur, toks[i].Span.Start, toks[i].Span.End)) {
					progress = true
					break
				}
				// shorten long tokens (string literals)
				if l := toks[i].Span.End - toks[i].Span.Start; l > 40 {
					mid := toks[i].Span.Start + 2
					if try(removeRange(cur, mid, mid+l/2)) {
						progress = true
						break
					}
				}
			}
			if !progress {
				break
			}
		}

		if len(cur.Input)+planSize(cur) >= before {
			break
		}
	}
	return cur, attempts
}

func planSize(c Case) int {
	n := len(c.Files) * 2
	if c.Multi {
		n++
	}
	for _, f := range c.Files {
		n += len(f.Steps)
	}
	return n
}

// hasParenExpr reports whether the text contains an opening parenthesis that starts a parenthesised
// scalar expression (i.e. one that does not follow an identifier or the keyword in).
func hasParenExpr(in []byte) bool {
	toks := parser.Scan(string(in))
	for i, t := range toks {
		if t.Kind != parser.TokenLParen {
			continue
		}
		if i == 0 {
			return true
		}
		switch toks[i-1].Kind {
		case parser.TokenIdentifier, parser.TokenIn, parser.TokenQuotedIdentifier:
		default:
			return true
		}
	}
	return false
}
