package c16sim

import (
	"encoding/json"
	"fmt"
	"os"
)

// Command is what the driver asks a simulation process to do.
type Command struct {
	Mode string `json:"mode"` // worker | replay | minimise | probe
	// Isolate makes every execution of this command happen in a process of its own (exec.go).
	Isolate bool         `json:"isolate,omitempty"`
	Worker  WorkerConfig `json:"worker"`
	In      string       `json:"in,omitempty"`
	Out     string       `json:"out"`
	// MaxAttempts bounds the minimiser.
	MaxAttempts int `json:"max_attempts,omitempty"`
}

// ReplayFile is the self-contained replay artefact (DESIGN.md §3.2).
type ReplayFile struct {
	Tool           string       `json:"tool"`
	Property       string       `json:"property"`
	Leg            string       `json:"leg"` // in-process | process-level
	Class          string       `json:"violation_class"`
	BaseSeed       uint64       `json:"base_seed"`
	Violation      ViolationRec `json:"violation"`
	Minimised      bool         `json:"minimised"`
	Attempts       int          `json:"minimiser_attempts"`
	ReplayVerified bool         `json:"replay_verified"`
	Original       *Case        `json:"original_case,omitempty"`
}

// ReplayResult is the outcome of replaying a file.
type ReplayResult struct {
	Reproduced bool    `json:"reproduced"`
	Verdict    Verdict `json:"verdict"`
	Outcome    Outcome `json:"outcome"`
}

// Main is called from the _test.go file dropped into cmd/pql. It returns the process exit code.
func Main(h Hooks) int {
	cfgPath := os.Getenv("ZZSIM_CMD")
	if cfgPath == "" {
		fmt.Fprintln(os.Stderr, "c16sim: ZZSIM_CMD not set")
		return 2
	}
	if cfgPath == ExecOneEnv {
		return ExecOne(h)
	}
	b, err := os.ReadFile(cfgPath)
	if err != nil {
		fmt.Fprintln(os.Stderr, "c16sim:", err)
		return 2
	}
	var cmd Command
	if err := json.Unmarshal(b, &cmd); err != nil {
		fmt.Fprintln(os.Stderr, "c16sim:", err)
		return 2
	}
	IsolateExec = cmd.Isolate
	switch cmd.Mode {
	case "probe":
		res := Probe(h, cmd.Worker.Seed, cmd.Worker.MultiOK && h.Multi != nil)
		if err := WriteJSON(cmd.Out, res); err != nil {
			fmt.Fprintln(os.Stderr, "c16sim:", err)
			return 2
		}
		return 0
	case "worker":
		cmd.Worker.MultiOK = cmd.Worker.MultiOK && h.Multi != nil
		res := RunWorker(h, cmd.Worker)
		if err := WriteJSON(cmd.Out, res); err != nil {
			fmt.Fprintln(os.Stderr, "c16sim:", err)
			return 2
		}
		return 0
	case "replay", "minimise":
		b, err := os.ReadFile(cmd.In)
		if err != nil {
			fmt.Fprintln(os.Stderr, "c16sim:", err)
			return 2
		}
		var rf ReplayFile
		if err := json.Unmarshal(b, &rf); err != nil {
			fmt.Fprintln(os.Stderr, "c16sim:", err)
			return 2
		}
		c := rf.Violation.Case
		if (len(c.Files) > 1 || c.Multi) && h.Multi == nil {
			fmt.Fprintln(os.Stderr, "c16sim: replay needs the multiReadCloser leg, which could not be built")
			return 2
		}
		if cmd.Mode == "replay" {
			o := Execute(h, c, nil)
			v := Judge(c, NewModelCache(c.Input), o)
			rr := ReplayResult{Reproduced: v.Class != "" && v.Class == rf.Class, Verdict: v, Outcome: o}
			if err := WriteJSON(cmd.Out, rr); err != nil {
				fmt.Fprintln(os.Stderr, "c16sim:", err)
				return 2
			}
			return 0
		}
		max := cmd.MaxAttempts
		if max == 0 {
			max = 3000
		}
		orig := c.Clone()
		mc, attempts := Minimise(h, c, rf.Class, max)
		o := Execute(h, mc, nil)
		cache := NewModelCache(mc.Input)
		v := Judge(mc, cache, o)
		rf.Original = &orig
		rf.Violation.Case = mc
		rf.Violation.Outcome = o
		rf.Violation.Verdict = v
		if m := cache.At(len(mc.Input)); m != nil {
			rf.Violation.ModelStdout, rf.Violation.ModelFails = m.Stdout, m.Failures
		}
		rf.Minimised = true
		rf.Attempts = attempts
		if err := WriteJSON(cmd.Out, rf); err != nil {
			fmt.Fprintln(os.Stderr, "c16sim:", err)
			return 2
		}
		return 0
	}
	fmt.Fprintln(os.Stderr, "c16sim: unknown mode", cmd.Mode)
	return 2
}
