package c16sim

import (
	"sort"

	"github.com/runreveal/pql/zzverif/prng"
)

// interesting returns offsets where a chunk/file cut or a fault is most likely
// to matter: next to semicolons, inside CRLF, inside multi-byte runes, at line
// starts, inside comments and strings.
func interesting(in []byte) []int {
	set := map[int]bool{}
	add := func(k int) {
		if k >= 0 && k <= len(in) {
			set[k] = true
		}
	}
	for i, b := range in {
		switch {
		case b == ';':
			add(i)
			add(i + 1)
			add(i + 2)
		case b == '\n':
			add(i)
			add(i + 1)
		case b == '\r':
			add(i + 1)
		case b >= 0x80:
			add(i)
			add(i + 1)
		case b == '"' || b == '\'' || b == '`' || b == '/':
			add(i + 1)
		}
	}
	out := make([]int, 0, len(set))
	for k := range set {
		out = append(out, k)
	}
	sort.Ints(out)
	return out
}

// FaultKinds counts reader behaviours that actually fired in generated plans.
type FaultKinds map[string]int

// classifyCut names what a cut at offset k (0<k<len) falls into.
func classifyCut(in []byte, k int) string {
	if k <= 0 || k >= len(in) {
		return "cut-at-end"
	}
	a, b := in[k-1], in[k]
	switch {
	case a == '\r' && b == '\n':
		return "cut-inside-crlf"
	case b&0xC0 == 0x80:
		return "cut-inside-rune"
	case a == ';' || b == ';':
		return "cut-next-to-semicolon"
	case a == '\n':
		return "cut-at-line-start"
	case isWord(a) && isWord(b):
		return "cut-inside-word"
	case (a == '=' && b == '=') || (a == '/' && b == '/') || (a == '!' && b == '=') || (a == '<' && b == '='):
		return "cut-inside-operator"
	}
	return "cut-elsewhere"
}

func isWord(b byte) bool {
	return b == '_' || b == '$' || '0' <= b && b <= '9' || 'a' <= b && b <= 'z' || 'A' <= b && b <= 'Z'
}

// chunkPlan draws benign Read steps covering exactly n bytes of data.
func chunkPlan(r *prng.Rand, data []byte, fk FaultKinds, base int, whole []byte) []Step {
	n := len(data)
	var steps []Step
	style := r.Intn(7)
	pos := 0
	ints := interesting(data)
	emptyRun := 0
	for pos < n {
		if r.Chance(1, 12) && emptyRun < 3 {
			steps = append(steps, Step{N: 0})
			fk["empty-read"]++
			emptyRun++
			continue
		}
		emptyRun = 0
		var sz int
		switch style {
		case 0: // whole
			sz = n - pos
		case 1: // byte by byte
			sz = 1
		case 2:
			sz = r.Range(1, 8)
		case 3:
			sz = r.Range(1, 200)
		case 4, 5: // cut at interesting offsets
			next := n
			// pick the next interesting offset after pos, skipping some
			for _, k := range ints {
				if k > pos {
					next = k
					if r.Chance(1, 2) {
						break
					}
				}
			}
			sz = next - pos
		default:
			sz = r.Range(1, 5000)
		}
		if sz > n-pos {
			sz = n - pos
		}
		if sz <= 0 {
			sz = 1
		}
		pos += sz
		if pos < n {
			fk[classifyCut(whole, base+pos)]++
		}
		steps = append(steps, Step{N: sz})
	}
	// how the end is signalled
	switch r.Intn(3) {
	case 0:
		if len(steps) > 0 && steps[len(steps)-1].N > 0 {
			steps[len(steps)-1].Err = "EOF" // final data together with io.EOF
			fk["data-with-eof"]++
		}
	case 1:
		if r.Chance(1, 2) {
			steps = append(steps, Step{N: 0}) // an empty read right before EOF
			fk["empty-read"]++
		}
	}
	return steps
}

// cutSteps truncates a plan so that exactly k bytes are delivered, then fails.
func cutSteps(steps []Step, k int, withData bool) []Step {
	var out []Step
	pos := 0
	for _, s := range steps {
		if pos+s.N >= k {
			rest := k - pos
			if withData && rest > 0 {
				out = append(out, Step{N: rest, Err: "ERR"})
			} else {
				if rest > 0 {
					out = append(out, Step{N: rest})
				}
				out = append(out, Step{N: 0, Err: "ERR"})
			}
			return out
		}
		out = append(out, Step{N: s.N})
		pos += s.N
	}
	out = append(out, Step{N: 0, Err: "ERR"})
	return out
}

// drawFiles cuts the input into 1..4 files.
func drawFiles(r *prng.Rand, in []byte, fk FaultKinds) []int {
	nf := r.Pick([]int{0, 5, 3, 2, 1})
	if nf <= 1 {
		return []int{len(in)}
	}
	var lineEnds []int
	for i, b := range in {
		if b == '\n' {
			lineEnds = append(lineEnds, i+1)
		}
	}
	var cuts []int
	for i := 0; i < nf-1; i++ {
		var k int
		switch {
		case len(lineEnds) > 0 && r.Chance(3, 5):
			k = lineEnds[r.Intn(len(lineEnds))]
		case r.Chance(1, 8):
			if r.Chance(1, 2) {
				k = 0
			} else {
				k = len(in)
			}
		default:
			k = r.Intn(len(in) + 1)
		}
		cuts = append(cuts, k)
	}
	sort.Ints(cuts)
	var lens []int
	prev := 0
	for _, k := range cuts {
		lens = append(lens, k-prev)
		if k == prev {
			fk["empty-file"]++
		} else if k < len(in) && k > 0 {
			fk["file-"+classifyCut(in, k)]++
		}
		prev = k
	}
	lens = append(lens, len(in)-prev)
	if len(in)-prev == 0 {
		fk["empty-file"]++
	}
	return lens
}

// RandomCase draws one transport for the script: file split, chunking and
// (if fault is set) one read error.
func RandomCase(r *prng.Rand, in []byte, fault bool, multiOK bool, fk FaultKinds) Case {
	c := Case{Input: in}
	lens := []int{len(in)}
	if multiOK {
		lens = drawFiles(r, in, fk)
		if len(lens) == 1 && r.Chance(1, 4) {
			c.Multi = true
		}
	}
	off := 0
	for _, l := range lens {
		c.Files = append(c.Files, FileSpec{Len: l, Steps: chunkPlan(r, in[off:off+l], fk, off, in)})
		off += l
	}
	if fault {
		// choose the global offset of the fault
		var k int
		ints := interesting(in)
		if len(ints) > 0 && r.Chance(1, 2) {
			k = ints[r.Intn(len(ints))]
		} else {
			k = r.Intn(len(in) + 1)
		}
		withData := r.Chance(1, 2)
		off = 0
		for i := range c.Files {
			f := &c.Files[i]
			last := i == len(c.Files)-1
			if k < off+f.Len || last || (k == off+f.Len && r.Chance(1, 2)) {
				f.Steps = cutSteps(f.Steps, k-off, withData)
				if withData && k-off > 0 {
					fk["data-with-error"]++
				}
				if k-off == 0 || k-off == f.Len {
					fk["error-at-file-boundary"]++
				}
				if k == 0 {
					fk["error-at-offset-0"]++
				}
				fk["read-error"]++
				break
			}
			off += f.Len
		}
	}
	return c
}

// SweepCases enumerates the single-fault placements of DESIGN.md §5.3 for one script.
func SweepCases(in []byte, multiOK bool, emit func(Case)) {
	n := len(in)
	for k := 0; k <= n; k++ {
		// read error after k bytes, as a separate read and together with the data
		emit(Case{Input: in, Files: []FileSpec{{Len: n, Steps: cutSteps([]Step{{N: n}}, k, false)}}, Note: "sweep:error"})
		if k > 0 {
			emit(Case{Input: in, Files: []FileSpec{{Len: n, Steps: cutSteps([]Step{{N: n}}, k, true)}}, Note: "sweep:data+error"})
		}
		if k > 0 && k < n {
			// two-chunk split
			emit(Case{Input: in, Files: []FileSpec{{Len: n, Steps: []Step{{N: k}, {N: n - k}}}}, Note: "sweep:split"})
			// a single empty read at k
			emit(Case{Input: in, Files: []FileSpec{{Len: n, Steps: []Step{{N: k}, {N: 0}, {N: n - k}}}}, Note: "sweep:empty-read"})
		}
		if multiOK {
			// two-file cut (k = 0 and k = n give an empty file)
			emit(Case{Input: in, Files: []FileSpec{{Len: k}, {Len: n - k}}, Note: "sweep:two-files"})
			// first file ends with data+EOF
			if k > 0 {
				emit(Case{Input: in, Files: []FileSpec{{Len: k, Steps: []Step{{N: k, Err: "EOF"}}}, {Len: n - k}}, Note: "sweep:two-files-data+eof"})
			}
		}
	}
}
