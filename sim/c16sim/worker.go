package c16sim

import (
	"encoding/json"
	"fmt"
	"os"
	"sort"
	"strconv"
	"time"

	"github.com/runreveal/pql/zzverif/pqlgen"
	"github.com/runreveal/pql/zzverif/prng"
)

// WorkerConfig configures one simulation process.
type WorkerConfig struct {
	Seed        uint64 `json:"seed"`          // process seed
	Scripts     int    `json:"scripts"`       // number of scripts (0 = until deadline)
	BudgetMs    int    `json:"budget_ms"`     // wall-clock budget when Scripts == 0
	SweepFirst  int    `json:"sweep_first"`   // sweep every one of the first N scripts
	SweepEvery  int    `json:"sweep_every"`   // afterwards sweep 1 in N (0 = never)
	Benign      int    `json:"benign"`        // random benign transports per script
	Faulty      int    `json:"faulty"`        // random faulty transports per script
	MaxSweepLen int    `json:"max_sweep_len"` // do not sweep scripts longer than this
	LogPath     string `json:"log_path,omitempty"`
	MultiOK     bool   `json:"multi_ok"`
	// SchedSeeds > 0: scheduled leg — every case is executed under this many seeded schedules.
	SchedSeeds int `json:"sched_seeds,omitempty"`
}

// ViolationRec is one recorded oracle violation.
type ViolationRec struct {
	ProcessSeed uint64  `json:"process_seed"`
	Script      int     `json:"script_index"`
	Case        Case    `json:"case"`
	Verdict     Verdict `json:"verdict"`
	Outcome     Outcome `json:"outcome"`
	ModelStdout string  `json:"model_stdout"`
	ModelFails  int     `json:"model_failures"`
}

// WorkerResult is what a simulation process reports.
type WorkerResult struct {
	Seed          uint64         `json:"seed"`
	Scripts       int            `json:"scripts"`
	Runs          int            `json:"runs"`
	RunsStrict    int            `json:"runs_fault_free"`
	RunsFault     int            `json:"runs_fault_injecting"`
	SweepScripts  int            `json:"sweep_scripts"`
	SweepRuns     int            `json:"sweep_runs"`
	MultiRuns     int            `json:"multi_file_runs"`
	LongLineRuns  int            `json:"long_line_runs"`
	Steps         int            `json:"logical_steps"` // Read + Write calls
	BytesFed      int            `json:"bytes_fed"`
	FaultKinds    map[string]int `json:"fault_kinds_fired"`
	Probes        map[string]int `json:"probes"`
	StmtKinds     map[string]int `json:"stmt_kinds"`
	Transitions   []string       `json:"transitions"`
	SinkEqFail    int            `json:"runs_reports_equal_failures"`
	SinkGtFail    int            `json:"runs_reports_exceed_failures"`
	Digest        string         `json:"event_log_digest"`
	Events        int            `json:"events"`
	Violations    []ViolationRec `json:"violations"`
	Inconclusive  []string       `json:"inconclusive"`
	Samples       []any          `json:"samples"`
	WallMs        int64          `json:"wall_ms"`
	ViolationRuns int            `json:"violation_runs"`
	Hung          bool           `json:"hung,omitempty"`
}

// RunWorker runs one simulation process.
func RunWorker(h Hooks, cfg WorkerConfig) *WorkerResult {
	startWall := time.Now() // wall clock is used only for the budget, never for choices
	res := &WorkerResult{Seed: cfg.Seed, FaultKinds: map[string]int{}, Probes: map[string]int{}, StmtKinds: map[string]int{}}
	var logf *os.File
	if cfg.LogPath != "" {
		f, err := os.Create(cfg.LogPath)
		if err != nil {
			panic(err)
		}
		logf = f
		defer f.Close()
	}
	var log *EventLog
	if logf != nil {
		log = NewEventLog(logf)
	} else {
		log = NewEventLog(nil)
	}
	log.Add("SEED %d", cfg.Seed)
	trans := map[string]bool{}
	fk := FaultKinds(res.FaultKinds)
	deadline := startWall.Add(time.Duration(cfg.BudgetMs) * time.Millisecond)

	for si := 0; ; si++ {
		if cfg.Scripts > 0 && si >= cfg.Scripts {
			break
		}
		if cfg.Scripts == 0 && time.Now().After(deadline) {
			break
		}
		if len(res.Violations) >= 3 || res.Hung {
			break
		}
		r := prng.Sub(cfg.Seed, "script", uint64(si))
		scfg := pqlgen.DrawScriptConfig(r)
		sc := pqlgen.GenScript(r, scfg)
		log.Add("SCRIPT %d len=%d kinds=%v", si, len(sc.Bytes), sc.Kinds)
		res.Scripts++
		for _, k := range sc.Kinds {
			res.StmtKinds[k]++
		}
		mc := NewModelCache(sc.Bytes)
		sr := AnalyseScript(mc)
		if mc.ModelPanic != "" {
			res.Inconclusive = append(res.Inconclusive, fmt.Sprintf("script %d: library fails inside the model: %s", si, mc.ModelPanic))
			if mc.ModelHung {
				res.Hung = true
			}
			continue
		}
		for k, v := range sr.Probes {
			res.Probes[k] += v
		}
		if sc.LongLineAt >= 0 {
			res.Probes["script-with-line-over-64KiB"]++
		}
		if scfg.Fat {
			res.Probes["script-with-a-statement-of-several-KiB"]++
		}
		if len(sc.Bytes) > 4096 {
			res.Probes["script-input-over-4KiB"]++
		}
		if m := mc.At(len(sc.Bytes)); m != nil && len(m.Stdout) > 4096 {
			res.Probes["script-output-over-4KiB"]++
		}
		var one1 func(c Case, sweep bool)
		schedNo := uint64(0)
		one := func(c Case, sweep bool) {
			if cfg.SchedSeeds == 0 {
				one1(c, sweep)
				return
			}
			for i := 0; i < cfg.SchedSeeds; i++ {
				schedNo++
				c.Sched = prng.Derive(cfg.Seed, "c16-schedule", schedNo) | 1
				one1(c, sweep)
			}
		}
		one1 = func(c Case, sweep bool) {
			if res.Hung {
				return // a previous execution never returned: its goroutine is still spinning
			}
			o := Execute(h, c, log)
			if o.Hang {
				res.Hung = true
			}
			v := Judge(c, mc, o)
			res.Runs++
			res.Steps += o.Reads + o.Writes
			res.BytesFed += len(c.Input)
			isFault := c.ErrK() >= 0
			if isFault {
				res.RunsFault++
				fk["read-error-fired(all runs incl. sweeps)"]++
			} else {
				res.RunsStrict++
			}
			if sweep {
				res.SweepRuns++
			}
			if len(c.Files) > 1 || c.Multi {
				res.MultiRuns++
			}
			if sc.LongLineAt >= 0 {
				res.LongLineRuns++
				fk["over-long-line"]++
			}
			if !isFault {
				if m := mc.At(len(c.Input)); m != nil {
					if o.Sink == m.Failures {
						res.SinkEqFail++
					} else if o.Sink > m.Failures {
						res.SinkGtFail++
					}
				}
			} else {
				// fault placement relative to the abstract state
				k := c.ErrK()
				for _, l := range sr.Lines {
					if k >= l.Start && k < l.End {
						if l.Before.pending != "none" && l.Before.pending != "blank" {
							fk["read-error-with-statement-pending"]++
						}
						if l.Before.prelude > 0 {
							fk["read-error-with-prelude-in-force"]++
						}
						break
					}
				}
			}
			cls := caseReaderClasses(c, sr)
			for i, l := range sr.Lines {
				trans[l.Before.String()+" --"+l.Event+"/"+cls[i]+"--> "+l.After.String()] = true
			}
			if v.Inconclusive != "" {
				if len(res.Inconclusive) < 10 {
					res.Inconclusive = append(res.Inconclusive, fmt.Sprintf("script %d: %s", si, v.Inconclusive))
				}
				return
			}
			if v.Class != "" {
				res.ViolationRuns++
				if len(res.Violations) < 3 {
					seen := false
					for _, old := range res.Violations {
						if old.Verdict.Class == v.Class {
							seen = true
						}
					}
					if !seen || len(res.Violations) == 0 {
						m := mc.At(len(c.Input))
						vr := ViolationRec{ProcessSeed: cfg.Seed, Script: si, Case: c.Clone(), Verdict: v, Outcome: o}
						if m != nil {
							vr.ModelStdout, vr.ModelFails = m.Stdout, m.Failures
						}
						res.Violations = append(res.Violations, vr)
					}
				}
			}
			if len(res.Samples) < 3 && (res.Runs == 2 || res.Runs == 40 || (isFault && res.Runs > 50)) {
				res.Samples = append(res.Samples, map[string]any{
					"input": strconv.Quote(clip(string(c.Input))), "read_plan": PlanString(c), "regime": v.Regime,
					"stdout": clip(o.Stdout), "reports": o.Sink, "run_returned": o.RetErr,
				})
			}
		}
		tr := prng.Sub(cfg.Seed, "transport", uint64(si))
		for i := 0; i < cfg.Benign; i++ {
			one(RandomCase(tr, sc.Bytes, false, cfg.MultiOK, fk), false)
		}
		for i := 0; i < cfg.Faulty; i++ {
			one(RandomCase(tr, sc.Bytes, true, cfg.MultiOK, fk), false)
		}
		sweep := si < cfg.SweepFirst || (cfg.SweepEvery > 0 && prng.Derive(cfg.Seed, "sweep?", uint64(si))%uint64(cfg.SweepEvery) == 0)
		if sweep && len(sc.Bytes) <= cfg.MaxSweepLen {
			res.SweepScripts++
			SweepCases(sc.Bytes, cfg.MultiOK, func(c Case) { one(c, true) })
		}
	}
	for k := range trans {
		res.Transitions = append(res.Transitions, k)
	}
	sort.Strings(res.Transitions)
	res.Digest = log.Digest()
	res.Events = log.N
	res.WallMs = time.Since(startWall).Milliseconds()
	return res
}

// WriteJSON writes v to path.
func WriteJSON(path string, v any) error {
	b, err := json.MarshalIndent(v, "", " ")
	if err != nil {
		return err
	}
	return os.WriteFile(path, b, 0o644)
}
