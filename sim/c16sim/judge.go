package c16sim

import (
	"fmt"
	"strings"
	"time"

	"github.com/runreveal/pql/parser"
	"github.com/runreveal/pql/zzverif/c16model"
)

// LongLineLimit: a line longer than this may legitimately be unreadable for a
// line-oriented tool ("input could not be read completely"); the generator only
// produces lines far below or well above it.
const LongLineLimit = 65536

// MaxExtraReads bounds Read calls after the reader reported EOF or an error (P5).
const MaxExtraReads = 4

// Verdict is the oracle's decision for one execution.
type Verdict struct {
	Class  string `json:"class"` // "" = held
	Detail string `json:"detail,omitempty"`
	Regime string `json:"regime"`
	// Inconclusive is set when the model itself could not produce an answer (library panic: C12 territory).
	Inconclusive string `json:"inconclusive,omitempty"`
}

// ModelCache memoises model results per input prefix of one script.
type ModelCache struct {
	in []byte
	m  map[int]*c16model.Result
	// ModelPanic is set if the library panicked (or did not return) inside the model.
	ModelPanic string
	ModelHung  bool
}

// NewModelCache returns a cache for input.
func NewModelCache(in []byte) *ModelCache {
	return &ModelCache{in: in, m: map[int]*c16model.Result{}}
}

// At returns the model result for in[:k].
func (mc *ModelCache) At(k int) (res *c16model.Result) {
	if r, ok := mc.m[k]; ok {
		return r
	}
	if mc.ModelPanic != "" {
		return nil
	}
	type answer struct {
		r *c16model.Result
		p string
	}
	ch := make(chan answer, 1)
	go func() {
		defer func() {
			if p := recover(); p != nil {
				ch <- answer{p: fmt.Sprint(p)}
			}
		}()
		ch <- answer{r: c16model.Run(mc.in[:k])}
	}()
	timer := time.NewTimer(HangTimeout)
	defer timer.Stop()
	select {
	case a := <-ch:
		if a.r == nil {
			mc.ModelPanic = a.p
			return nil
		}
		mc.m[k] = a.r
		return a.r
	case <-timer.C:
		// the library itself does not return on a statement of this script: C12 territory
		mc.ModelPanic = fmt.Sprintf("pql.Compile did not return within %v on a statement of the script", HangTimeout)
		mc.ModelHung = true
		return nil
	}
}

func strict(m *c16model.Result, o Outcome, procLevel bool) (class, detail string) {
	if o.Stdout != m.Stdout {
		return "stdout-mismatch", fmt.Sprintf("want %q got %q", clip(m.Stdout), clip(o.Stdout))
	}
	ret := o.RetErr != ""
	if o.Sink < m.Failures {
		return "failure-not-reported", fmt.Sprintf("%d statements failed, %d reported", m.Failures, o.Sink)
	}
	if m.Failures > 0 && !ret {
		return "exit-zero-despite-failure", fmt.Sprintf("%d statements failed, run returned nil", m.Failures)
	}
	if m.Failures == 0 && m.D1 == 0 && !m.D2 && ret {
		return "exit-nonzero-without-failure", fmt.Sprintf("no statement failed, run returned %q", o.RetErr)
	}
	// A reported failure must make the exit status non-zero and vice versa. On the real binary
	// "reports" are stderr lines, and the property does not forbid stderr output on success.
	if ((o.Sink > 0) != ret) && !(procLevel && !ret) {
		return "report-exit-disagree", fmt.Sprintf("reports=%d, run returned %q", o.Sink, o.RetErr)
	}
	return "", ""
}

// sameTokens reports whether two pieces have the same token sequence (kinds and values): the
// fragment a read error left behind IS the script's last statement, cut only inside trailing blanks or comments.
func sameTokens(a, b string) bool {
	ta, tb := parser.Scan(a), parser.Scan(b)
	if len(ta) != len(tb) {
		return false
	}
	for i := range ta {
		if ta[i].Kind != tb[i].Kind || ta[i].Value != tb[i].Value {
			return false
		}
	}
	return true
}

func relaxed(m *c16model.Result, full *c16model.Result, o Outcome, must string) (class, detail string) {
	class, detail = relaxedPrefix(m, full, o)
	if class == "" && !strings.HasPrefix(o.Stdout, must) {
		// F4: the lines that were delivered completely before the failure were the tool's to translate.
		return "statements-dropped-after-read-failure", fmt.Sprintf("the statements terminated on lines that were delivered completely before the read failure compile to %q; stdout has only %q", clip(must), clip(o.Stdout))
	}
	return class, detail
}

func relaxedPrefix(m *c16model.Result, full *c16model.Result, o Outcome) (class, detail string) {
	if o.RetErr == "" {
		return "read-failure-exit-zero", "input could not be read completely but run returned nil"
	}
	// F2: stdout is the output of the first j terminated statements, optionally followed by
	// the output of the unterminated remainder.
	acc := ""
	fails := 0
	term := 0
	if o.Stdout == "" {
		return "", "" // j = 0; F3 vacuous
	}
	for _, p := range m.Pieces {
		if !p.Terminated {
			break
		}
		term++
		acc += p.Out
		if !p.OK {
			fails++
		}
		if acc == o.Stdout {
			if o.Sink < fails {
				return "failure-not-reported", fmt.Sprintf("%d of the processed statements failed, %d reported", fails, o.Sink)
			}
			return "", ""
		}
		if !strings.HasPrefix(o.Stdout, acc) {
			break
		}
	}
	if term == len(m.Pieces)-1 && m.Stdout == o.Stdout {
		// All terminated statements plus the unterminated remainder. Its SQL belongs on stdout only if the
		// remainder IS the script's final statement (everything of it was delivered before the failure);
		// SQL for a fragment that the read failure cut out of a longer statement is SQL for a statement
		// the script does not contain.
		last := m.Pieces[len(m.Pieces)-1]
		whole := full != nil && len(full.Pieces) == len(m.Pieces) && sameTokens(last.Text, full.Pieces[len(full.Pieces)-1].Text)
		if last.Out != "" && !whole {
			return "sql-for-truncated-statement-after-read-failure", fmt.Sprintf("input could not be read beyond %q, yet stdout ends with SQL compiled from that fragment: %q", clip(last.Text), clip(last.Out))
		}
		if o.Sink < m.Failures-boolInt(!m.Pieces[len(m.Pieces)-1].OK) {
			return "failure-not-reported", fmt.Sprintf("%d statements failed, %d reported", m.Failures, o.Sink)
		}
		return "", ""
	}
	return "stdout-wrong-data-after-read-failure", fmt.Sprintf("stdout %q is not a statement prefix of %q", clip(o.Stdout), clip(m.Stdout))
}

func boolInt(b bool) int {
	if b {
		return 1
	}
	return 0
}

func clip(s string) string {
	if len(s) > 300 {
		return s[:200] + "…" + s[len(s)-80:]
	}
	return s
}

// Judge applies the oracle of DESIGN.md §5.4 to one execution.
func Judge(c Case, mc *ModelCache, o Outcome) Verdict {
	if o.Hang {
		// The model compiled every statement of this script (and of every prefix the regime needs)
		// and returned; a tool that compiles only what it is given terminates too.
		if mc.At(len(c.Input)) == nil {
			return Verdict{Inconclusive: "library fails inside the model: " + mc.ModelPanic}
		}
		return Verdict{Class: "tool-does-not-terminate", Regime: "any",
			Detail: fmt.Sprintf("run had not returned after %v although every statement of the script compiles in finite time on its own (the tool loops, or hands the library text that is not a statement of the script)", HangTimeout)}
	}
	switch o.SchedOutcome {
	case "deadlock", "budget":
		if mc.At(len(c.Input)) == nil {
			return Verdict{Inconclusive: "library fails inside the model: " + mc.ModelPanic}
		}
		return Verdict{Class: "tool-does-not-terminate", Regime: "any",
			Detail: fmt.Sprintf("under schedule seed %d the tool's goroutines reach a state from which run cannot return (%s): %s", c.Sched, o.SchedOutcome, clip(o.SchedDetail))}
	case "stuck":
		return Verdict{Inconclusive: "scheduled leg: a goroutine of the tool waits on something outside the simulation: " + clip(o.SchedDetail)}
	}
	if o.Panic != "" {
		// Does the library alone panic on this script? Then it is C12 territory, not C16.
		if mc.At(len(c.Input)) == nil {
			return Verdict{Inconclusive: "library fails inside the model: " + mc.ModelPanic}
		}
		return Verdict{Class: "tool-panics", Detail: firstLine(o.Panic), Regime: "any"}
	}
	if o.ExtraReads > MaxExtraReads {
		return Verdict{Class: "reads-after-end", Detail: fmt.Sprintf("%d Read calls after EOF/error", o.ExtraReads), Regime: "any"}
	}
	errK := c.ErrK()
	longs := c16model.LongLines(c.Input, LongLineLimit)
	type regime struct {
		name    string
		k       int
		relaxed bool
	}
	var regs []regime
	if errK >= 0 {
		regs = append(regs, regime{fmt.Sprintf("relaxed(k=%d)", errK), errK, true})
		for _, l := range longs {
			if l < errK {
				regs = append(regs, regime{fmt.Sprintf("relaxed(long line at %d)", l), l, true})
			}
		}
	} else {
		regs = append(regs, regime{"strict", len(c.Input), false})
		for _, l := range longs {
			regs = append(regs, regime{fmt.Sprintf("relaxed(long line at %d)", l), l, true})
		}
	}
	var first Verdict
	for i, r := range regs {
		m := mc.At(r.k)
		if m == nil {
			return Verdict{Inconclusive: "library fails inside the model: " + mc.ModelPanic}
		}
		var class, detail string
		if r.relaxed {
			// what the complete lines of the delivered prefix amount to
			l := r.k
			for l > 0 && c.Input[l-1] != '\n' {
				l--
			}
			ml := mc.At(l)
			if ml == nil {
				return Verdict{Inconclusive: "library fails inside the model: " + mc.ModelPanic}
			}
			must := ""
			for _, p := range ml.Pieces {
				// (process-level leg: whether an unreadable FILE argument is noticed when it is opened,
				// before anything is translated, or when its turn comes is the tool's choice)
				if p.Terminated && !c.ProcLevel {
					must += p.Out
				}
			}
			class, detail = relaxed(m, mc.At(len(c.Input)), o, must)
		} else {
			class, detail = strict(m, o, c.ProcLevel)
		}
		if class == "" {
			return Verdict{Regime: r.name}
		}
		if i == 0 {
			first = Verdict{Class: class, Detail: detail, Regime: r.name}
		}
	}
	if len(regs) > 1 {
		first.Detail += fmt.Sprintf(" (and none of the %d alternative regimes for over-long lines matched)", len(regs)-1)
	}
	return first
}

func firstLine(s string) string {
	if i := strings.IndexByte(s, '\n'); i >= 0 {
		return s[:i]
	}
	return s
}
