package zzsimrt

// getg returns the address of the running goroutine's g structure: a cheap,
// stable identity for "which simulated caller is executing this library code".
func getg() uintptr
