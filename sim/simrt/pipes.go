package zzsimrt

import (
	"syscall"
	"unsafe"
)

// Raw system calls: unlike channels, mutexes or syscall.Read/Write they carry no
// race-detector annotation, so parking and waking create no happens-before edge.

//go:norace
func rawPipe() (r, w int) {
	var fds [2]int32
	_, _, e := syscall.RawSyscall(syscall.SYS_PIPE2, uintptr(unsafe.Pointer(&fds)), uintptr(syscall.O_CLOEXEC), 0)
	if e != 0 {
		panic("zzsimrt: pipe2 failed")
	}
	return int(fds[0]), int(fds[1])
}

//go:norace
func rawReadByte(fd int) byte {
	var b [1]byte
	for {
		n, _, e := syscall.Syscall(syscall.SYS_READ, uintptr(fd), uintptr(unsafe.Pointer(&b[0])), 1)
		if e == syscall.EINTR || e == syscall.EAGAIN {
			continue
		}
		if e != 0 || n != 1 {
			panic("zzsimrt: read on scheduler pipe failed")
		}
		return b[0]
	}
}

//go:norace
func rawWriteByte(fd int, v byte) {
	b := [1]byte{v}
	for {
		n, _, e := syscall.Syscall(syscall.SYS_WRITE, uintptr(fd), uintptr(unsafe.Pointer(&b[0])), 1)
		if e == syscall.EINTR || e == syscall.EAGAIN {
			continue
		}
		if e != 0 || n != 1 {
			panic("zzsimrt: write on scheduler pipe failed")
		}
		return
	}
}

//go:norace
func rawPark(fd int) { rawReadByte(fd) }

//go:norace
func rawWake(fd int) { rawWriteByte(fd, 'w') }

//go:norace
func rawWrite(fd int, p *byte, n int) {
	for {
		_, _, e := syscall.Syscall(syscall.SYS_WRITE, uintptr(fd), uintptr(unsafe.Pointer(p)), uintptr(n))
		if e == syscall.EINTR || e == syscall.EAGAIN {
			continue
		}
		return
	}
}
