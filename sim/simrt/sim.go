package zzsimrt

import (
	"os"
	"sync/atomic"
	"time"
	"unsafe"
)

// Simulated clock, timers, library-started goroutines and channel operations. A changed tree may
// give the library a clock (time.Now, TTLs, tickers) or goroutines of its own; the instrumenter
// routes those through the functions below so that the simulator owns them too:
//
//   - time.Now/Since/Until/Sleep/After/Tick/NewTicker/NewTimer/AfterFunc read and arm the SIMULATED
//     clock, which moves only when the harness injects a jump or when nothing is runnable
//     (discrete-event time: a 5 s TTL costs nothing);
//   - `go f()` registers the new goroutine as a task ("daemon") that runs only when scheduled;
//   - channel sends/receives/range/select never block inside the Go runtime: a task whose operation
//     cannot proceed parks in state polling and retries after something has happened.
//
// Timer channels are served by a dedicated goroutine (clockG) so that firing a timer creates no
// happens-before edge from whichever task happened to advance the clock.

// FreeDaemons is the degraded mode for trees whose own goroutines communicate in ways the simulator
// cannot own (DESIGN.md §4.9): goroutines started by the library run natively (real scheduler, real
// clock, real blocking), only the simulated callers stay under the seeded scheduler. Channel operations
// of callers still poll, with real-time patience when nothing simulated can run.
var FreeDaemons = os.Getenv("ZZSIM_FREE_DAEMONS") == "1"

var (
	simNow       int64 // simulated nanoseconds since process start
	progress     uint64
	clockJumps   int
	timersFired  int
	daemonSwitch bool
)

// simEpoch is the simulated wall-clock time at process start (no monotonic reading).
var simEpoch = time.Date(2024, 1, 1, 0, 0, 0, 0, time.UTC)

type simTimer struct {
	alive  bool
	fireAt int64
	period int64
	ch     chan time.Time
	fn     func()
	handle *time.Timer // AfterFunc: the value handed to the caller
	hb     uint32      // creator releases, clockG acquires: creation happens-before firing
}

var (
	timers  [64]simTimer
	clockR  int // clockG's park pipe
	clockW  int
	clockOK bool
	backW   int // who to wake when clockG is done
)

// hbRelease / hbAcquire are deliberately NOT norace: they give the race detector the edge
// "arming a timer happens-before its firing", exactly what the real runtime provides.
//
// hbRelease is a read-modify-write: the race detector treats it as acquire+release, so successive
// releases on one word accumulate (a plain store would replace the earlier releaser's clock).
func hbRelease(p *uint32) { atomic.AddUint32(p, 1) }
func hbAcquire(p *uint32) { atomic.LoadUint32(p) }

// TimeNow replaces time.Now.
//
//go:norace
func TimeNow() time.Time {
	if FreeDaemons || cur() == nil {
		return time.Now()
	}
	return simEpoch.Add(time.Duration(simNow))
}

// TimeSince replaces time.Since.
func TimeSince(t time.Time) time.Duration {
	if FreeDaemons || cur() == nil {
		return time.Since(t)
	}
	return TimeNow().Sub(t)
}

// TimeUntil replaces time.Until.
func TimeUntil(t time.Time) time.Duration {
	if FreeDaemons || cur() == nil {
		return time.Until(t)
	}
	return t.Sub(TimeNow())
}

// TimeSleep replaces time.Sleep.
//
//go:norace
func TimeSleep(d time.Duration) {
	t := cur()
	if FreeDaemons || t == nil {
		time.Sleep(d)
		return
	}
	if d <= 0 {
		reschedule(t, EvSync)
		return
	}
	t.state = tsSleeping
	t.wakeAt = simNow + int64(d)
	reschedule(t, EvBlocked)
}

// AdvanceClock is the harness's "time passes" event: the simulated clock jumps by d, due timers fire.
//
//go:norace
func AdvanceClock(d time.Duration) {
	t := cur()
	if FreeDaemons || t == nil || d <= 0 {
		return
	}
	simNow += int64(d)
	clockJumps++
	fireDue(t)
	reschedule(t, EvSync)
}

// advanceToNextEvent jumps the clock to the earliest timer or sleeper; false if there is none.
//
//go:norace
func advanceToNextEvent() bool {
	next := int64(-1)
	for i := range timers {
		if timers[i].alive && (next < 0 || timers[i].fireAt < next) {
			next = timers[i].fireAt
		}
	}
	for i := 0; i < hiSlot; i++ {
		if tasks[i].alive && tasks[i].state == tsSleeping && (next < 0 || tasks[i].wakeAt < next) {
			next = tasks[i].wakeAt
		}
	}
	if next < 0 {
		return false
	}
	if next > simNow {
		simNow = next
		clockJumps++
	}
	fireDue(nil)
	return true
}

// fireDue lets clockG fire every timer that is due. t is the running task (nil when called from the
// scheduling function with nobody running; the caller is then still the goroutine that holds control).
//
//go:norace
func fireDue(t *task) {
	due := false
	for i := range timers {
		if timers[i].alive && timers[i].fireAt <= simNow {
			due = true
		}
	}
	if !due {
		return
	}
	startClockG()
	// synchronous sub-hand-off: wake clockG, sleep until it has finished
	me := getg()
	var myR int
	found := false
	for pass := 0; pass < 2 && !found; pass++ {
		// the caller may be a task that has just finished (it still executes the scheduling function);
		// prefer a live slot, a stale slot of a finished task can carry a recycled goroutine identity
		for i := 0; i < hiSlot; i++ {
			if tasks[i].alive && tasks[i].g == me && (pass == 1 || tasks[i].state != tsDone) {
				backW, myR, found = tasks[i].wfd, tasks[i].rfd, true
				break
			}
		}
	}
	if !found {
		panic("zzsimrt: the goroutine advancing the clock is not a task")
	}
	rawWake(clockW)
	rawPark(myR)
}

var clockStarted bool

//go:norace
func startClockG() {
	if clockStarted {
		return
	}
	clockStarted = true
	clockR, clockW = rawPipe()
	go clockMain()
}

func clockMain() {
	for {
		clockWait()
		for i := range timers {
			if tm := clockDue(i); tm != nil {
				hbAcquire(&tm.hb)
				if tm.fn != nil {
					spawn(tm.fn)
				} else {
					select {
					case tm.ch <- simEpoch.Add(time.Duration(clockNow())):
					default: // receiver is behind: a real timer channel drops the tick too
					}
				}
			}
		}
		clockBack()
	}
}

//go:norace
func clockWait() { rawPark(clockR) }

//go:norace
func clockNow() int64 { return simNow }

//go:norace
func clockBack() { rawWake(backW) }

// clockDue returns timer i if it is due and re-arms or retires it.
//
//go:norace
func clockDue(i int) *simTimer {
	tm := &timers[i]
	if !tm.alive || tm.fireAt > simNow {
		return nil
	}
	timersFired++
	progress++
	if tm.period > 0 {
		for tm.fireAt <= simNow {
			tm.fireAt += tm.period
		}
	} else {
		tm.alive = false
	}
	return tm
}

//go:norace
func newTimer(d, period time.Duration, fn func()) *simTimer {
	for i := range timers {
		if !timers[i].alive {
			tm := &timers[i]
			*tm = simTimer{alive: true, fireAt: simNow + int64(d), period: int64(period), fn: fn}
			if fn == nil {
				tm.ch = make(chan time.Time, 1)
			}
			return tm
		}
	}
	panic("zzsimrt: too many simulated timers")
}

//go:norace
func findTimer(ch <-chan time.Time) *simTimer {
	for i := range timers {
		if timers[i].alive && timers[i].ch != nil && (<-chan time.Time)(timers[i].ch) == ch {
			return &timers[i]
		}
	}
	return nil
}

// TimeAfter replaces time.After.
func TimeAfter(d time.Duration) <-chan time.Time {
	if FreeDaemons || cur() == nil {
		return time.After(d)
	}
	tm := newTimer(d, 0, nil)
	hbRelease(&tm.hb)
	return tm.ch
}

// TimeTick replaces time.Tick.
func TimeTick(d time.Duration) <-chan time.Time {
	if FreeDaemons || cur() == nil {
		return time.Tick(d)
	}
	if d <= 0 {
		return nil
	}
	tm := newTimer(d, d, nil)
	hbRelease(&tm.hb)
	return tm.ch
}

// TimeNewTicker replaces time.NewTicker. The returned Ticker only carries the channel; Stop and
// Reset calls on it are routed to TickerStop / TickerReset by the instrumenter.
func TimeNewTicker(d time.Duration) *time.Ticker {
	if FreeDaemons || cur() == nil {
		return time.NewTicker(d)
	}
	if d <= 0 {
		panic("non-positive interval for NewTicker")
	}
	tm := newTimer(d, d, nil)
	hbRelease(&tm.hb)
	return &time.Ticker{C: tm.ch}
}

// TimeNewTimer replaces time.NewTimer.
func TimeNewTimer(d time.Duration) *time.Timer {
	if FreeDaemons || cur() == nil {
		return time.NewTimer(d)
	}
	tm := newTimer(d, 0, nil)
	hbRelease(&tm.hb)
	return &time.Timer{C: tm.ch}
}

// TimeAfterFunc replaces time.AfterFunc.
func TimeAfterFunc(d time.Duration, f func()) *time.Timer {
	if FreeDaemons || cur() == nil {
		return time.AfterFunc(d, f)
	}
	tm := newTimer(d, 0, f)
	h := &time.Timer{}
	setHandle(tm, h)
	hbRelease(&tm.hb)
	return h
}

//go:norace
func setHandle(tm *simTimer, h *time.Timer) { tm.handle = h }

// lookupTimer finds the simulated timer behind a *time.Timer: by its channel, or — for AfterFunc timers,
// which have none — by the handle (also after it fired or was stopped, as long as the slot was not reused).
//
//go:norace
func lookupTimer(c <-chan time.Time, h *time.Timer) *simTimer {
	if c != nil {
		return findTimer(c)
	}
	for i := range timers {
		if timers[i].handle == h {
			return &timers[i]
		}
	}
	return nil
}

// TickerStop replaces (*time.Ticker).Stop.
//
//go:norace
func TickerStop(t *time.Ticker) {
	if tm := findTimer(t.C); tm != nil {
		tm.alive = false
		return
	}
	if cur() == nil {
		t.Stop()
	}
}

// TickerReset replaces (*time.Ticker).Reset.
//
//go:norace
func TickerReset(t *time.Ticker, d time.Duration) {
	if tm := findTimer(t.C); tm != nil {
		tm.period = int64(d)
		tm.fireAt = simNow + int64(d)
		return
	}
	if cur() == nil {
		t.Reset(d)
	}
}

// TimerStop replaces (*time.Timer).Stop.
//
//go:norace
func TimerStop(t *time.Timer) bool {
	if tm := lookupTimer(t.C, t); tm != nil {
		was := tm.alive
		tm.alive = false
		return was
	}
	if cur() == nil {
		return t.Stop()
	}
	return false
}

// TimerReset replaces (*time.Timer).Reset.
func TimerReset(t *time.Timer, d time.Duration) bool {
	if FreeDaemons || cur() == nil {
		return t.Reset(d)
	}
	return timerReset(t, d)
}

//go:norace
func timerReset(t *time.Timer, d time.Duration) bool {
	for i := range timers {
		tm := &timers[i]
		if tm.ch != nil && (<-chan time.Time)(tm.ch) == t.C {
			was := tm.alive
			tm.alive = true
			tm.fireAt = simNow + int64(d)
			return was
		}
	}
	return false
}

// Go replaces the go statement inside the library.
func Go(f func()) {
	if FreeDaemons || cur() == nil {
		go f()
		return
	}
	spawn(f)
	yieldAfterSpawn()
}

//go:norace
func yieldAfterSpawn() {
	if t := cur(); t != nil {
		reschedule(t, EvSync)
	}
}

// spawn starts f as a daemon task: a real goroutine that runs only when the scheduler picks it.
func spawn(f func()) {
	d := allocDaemon(f)
	go daemonMain(d)
	waitReady()
}

//go:norace
func allocDaemon(f func()) int {
	for i := HarnessTasks; i < MaxTasks; i++ {
		if !tasks[i].alive || tasks[i].state == tsDone {
			if i >= hiSlot {
				hiSlot = i + 1
			}
			t := &tasks[i]
			rfd, wfd := t.rfd, t.wfd
			if rfd == 0 && wfd == 0 {
				rfd, wfd = rawPipe()
			}
			*t = task{rfd: rfd, wfd: wfd, alive: true, daemon: true, state: tsRunnable, body: f}
			t.rng = (cfg.Seed+uint64(i)+1)*0xbf58476d1ce4e5b9 | 1
			if cfg.ColdMean != 0 {
				t.coldLeft = 1 + int64(xorshift(&t.rng)%uint64(2*cfg.ColdMean))
			}
			progress++
			return i
		}
	}
	outcome = OutcomeStuck
	detail = "the library started more goroutines than the simulator has slots for"
	abort(cur())
	return 0
}

//go:norace
func waitReady() { rawReadByte(readyR) }

func daemonMain(i int) {
	f := daemonEnter(i)
	f()
	daemonLeave(i)
}

//go:norace
func daemonEnter(i int) func() {
	tasks[i].g = getg()
	rawWriteByte(readyW, 'r')
	rawPark(tasks[i].rfd)
	return tasks[i].body
}

//go:norace
func daemonLeave(i int) {
	t := &tasks[i]
	t.state = tsDone
	progress++
	// the slot stays reserved (alive, done) until the scheduling function has handed control on;
	// it is recycled by allocDaemon, which treats "alive and done" as free
	reschedule(t, EvDone)
}

// poll parks the running task until something has happened that may let its channel operation proceed.
//
//go:norace
func poll(t *task) {
	t.state = tsPolling
	t.polledAt = progress
	reschedule(t, EvBlocked)
	t.state = tsRunnable
}

//go:norace
func made() { progress++ }

// Unbuffered channels need a rendezvous: a non-blocking attempt succeeds only if the partner is parked
// INSIDE the runtime, which a polling partner never is. So a task that cannot proceed registers
// (channel, direction); when the partner arrives it flags the waiting task ("meet"), wakes it and both
// perform the real BLOCKING operation, which completes at once. Control ends up with the receiver of
// the hand-off rule below; the other task parks again as runnable. The only code ever executed
// concurrently is the few harness instructions between the completed operation and the park.

//go:norace
func chanPtr[T any](ch chan T) unsafe.Pointer { return *(*unsafe.Pointer)(unsafe.Pointer(&ch)) }

//go:norace
func waiting(p unsafe.Pointer, dir int, self *task) *task {
	if p == nil {
		return nil
	}
	for i := 0; i < hiSlot; i++ {
		t := &tasks[i]
		if t != self && t.alive && t.state == tsPolling && t.waitCh == p && t.waitDir == dir && !t.meet {
			return t
		}
	}
	return nil
}

// pollOn parks t registered as waiting on (p, dir); returns true if a partner arrived and flagged it.
//
//go:norace
func pollOn(t *task, p unsafe.Pointer, dir int) bool {
	t.waitCh, t.waitDir = p, dir
	poll(t)
	t.waitCh, t.waitDir = nil, 0
	if t.meet {
		t.meet = false
		return true
	}
	return false
}

// takeOver: the running task t has flagged partner p and woken it; after t's own blocking operation
// completed, control belongs to the task named by keep; the other parks as runnable.
//
//go:norace
func wakePartner(p *task) {
	p.meet = true
	progress++
	rawWake(p.wfd)
}

//go:norace
func parkRunnable(t *task) {
	t.state = tsRunnable
	rawPark(t.rfd)
}

//go:norace
func noteSwitch(from, to *task) {
	record(idx(from), EvSync, from.n, from.lastSite, idx(to))
	from.since = 0
}

// Recv replaces the receive expression <-ch.
func Recv[T any](ch <-chan T) T {
	v, _ := Recv2(ch)
	return v
}

// Recv2 replaces v, ok := <-ch.
func Recv2[T any](ch <-chan T) (T, bool) {
	t := cur()
	if t == nil {
		v, ok := <-ch
		return v, ok
	}
	schedPoint(t)
	p := *(*unsafe.Pointer)(unsafe.Pointer(&ch))
	for {
		select {
		case v, ok := <-ch:
			made()
			return v, ok
		default:
		}
		if ch == nil {
			pollForever(t)
		}
		if s := partnerFor(t, p, 2); s != nil {
			// a sender is parked waiting for us: let it send for real, receive for real, keep control
			markSenderParks(s)
			wakePartner(s)
			v, ok := <-ch
			made()
			return v, ok
		}
		if pollOn(t, p, 1) {
			// a sender arrived, flagged us and is performing its blocking send: control is ours now
			v, ok := <-ch
			made()
			return v, ok
		}
	}
}

// Send replaces the send statement ch <- v.
func Send[T any](ch chan<- T, v T) {
	t := cur()
	if t == nil {
		ch <- v
		return
	}
	schedPoint(t)
	p := *(*unsafe.Pointer)(unsafe.Pointer(&ch))
	for {
		select {
		case ch <- v:
			made()
			return
		default:
		}
		if ch == nil {
			pollForever(t)
		}
		if r := partnerFor(t, p, 1); r != nil {
			// a receiver is parked waiting for us: hand control to it and complete the rendezvous
			noteSwitch(t, r)
			wakePartner(r)
			ch <- v
			// from here on the receiver runs: touch nothing shared, just wait to be scheduled again
			parkRunnable(t)
			return
		}
		if pollOn(t, p, 2) {
			// a receiver arrived, flagged us and is blocked in its receive: send, then wait to be scheduled
			// (the receiver runs on: touch nothing shared)
			ch <- v
			parkRunnable(t)
			return
		}
	}
}

// Close replaces close(ch): closing wakes receivers, so it counts as progress.
func Close[T any](ch chan<- T) {
	close(ch)
	made()
}

//go:norace
func markSenderParks(s *task) {
	if s.sel != nil {
		s.parkAfterSelect = true
	}
}

//go:norace
func schedPoint(t *task) { reschedule(t, EvSync) }

//go:norace
func pollForever(t *task) {
	for {
		poll(t)
	}
}

// SelCase describes one communication clause of a blocking select statement.
type SelCase struct {
	ch  unsafe.Pointer // the runtime's channel object
	dir int            // 1 receive, 2 send
}

// RecvCase describes `case ... <-ch`.
func RecvCase[T any](ch <-chan T) SelCase {
	return SelCase{ch: *(*unsafe.Pointer)(unsafe.Pointer(&ch)), dir: 1}
}

// SendCase describes `case ch <- v`.
func SendCase[T any](ch chan<- T) SelCase {
	return SelCase{ch: *(*unsafe.Pointer)(unsafe.Pointer(&ch)), dir: 2}
}

// chanHeader mirrors the first fields of the runtime's hchan (go1.21 .. go1.23): the number of buffered
// elements, the buffer size and the closed flag are read directly, without a data-race annotation and
// without calling into another task's closures. The layout is verified once per process (checkLayout).
type chanHeader struct {
	qcount   uint
	dataqsiz uint
	buf      unsafe.Pointer
	elemsize uint16
	closed   uint32
}

var layoutOK = checkLayout()

func checkLayout() bool {
	c := make(chan int32, 3)
	c <- 7
	h := (*chanHeader)(*(*unsafe.Pointer)(unsafe.Pointer(&c)))
	ok := h.qcount == 1 && h.dataqsiz == 3 && h.elemsize == 4 && h.closed == 0
	close(c)
	return ok && h.closed != 0
}

//go:norace
func caseReady(c *SelCase) bool {
	if c.ch == nil {
		return false
	}
	h := (*chanHeader)(c.ch)
	if h.closed != 0 {
		return true
	}
	if c.dir == 1 {
		return h.qcount > 0
	}
	return h.qcount < h.dataqsiz
}

// MultiReadySelects counts select statements entered with more than one ready case (unowned choice).
var MultiReadySelects int

//go:norace
func countReady(cases []SelCase) int {
	n := 0
	for i := range cases {
		if caseReady(&cases[i]) {
			n++
		}
	}
	return n
}

//go:norace
func anyReady(cases []SelCase) bool {
	for i := range cases {
		if caseReady(&cases[i]) {
			return true
		}
	}
	return false
}

// SelectEnter guards a blocking select statement (inserted by the instrumenter's pre-pass together
// with the hoisting of the channel operands). It returns when the native select that follows can
// complete without blocking inside the runtime on something only a parked task could provide:
// a case is ready (buffered data / free slot / closed channel / fired timer), or an unbuffered
// rendezvous with a waiting partner has been arranged.
//
//go:norace
func SelectEnter(cases ...SelCase) {
	t := cur()
	if t == nil || FreeDaemons {
		return
	}
	if !layoutOK {
		panic("zzsimrt: the runtime's channel layout is not the one this simulator was written for")
	}
	schedPoint(t)
	for {
		if n := countReady(cases); n > 0 {
			if n > 1 {
				// Go picks one of several ready cases at random, from a generator nobody can seed
				MultiReadySelects++
			}
			return
		}
		if selectMeet(t, cases) {
			return
		}
		if selectWait(t, cases) {
			return // a partner arranged a rendezvous with us
		}
	}
}

// selectMeet looks for a task waiting on the other side of one of the (not ready) cases and arranges
// the rendezvous with it.
//
//go:norace
func selectMeet(t *task, cases []SelCase) bool {
	for i := range cases {
		c := &cases[i]
		if c.ch == nil {
			continue
		}
		p := partnerFor(t, c.ch, 3-c.dir)
		if p == nil {
			continue
		}
		arrange(t, p, c.dir)
		return true
	}
	return false
}

// partnerFor returns a task parked on channel ch in direction dir: in a plain operation, or in a
// select none of whose other cases is ready (such a task would rather take its ready case).
//
//go:norace
func partnerFor(self *task, ch unsafe.Pointer, dir int) *task {
	if p := waiting(ch, dir, self); p != nil {
		return p
	}
	for i := 0; i < hiSlot; i++ {
		p := &tasks[i]
		if p == self || !p.alive || p.state != tsPolling || p.meet || p.sel == nil {
			continue
		}
		has := false
		for k := range p.sel {
			if p.sel[k].ch == ch && p.sel[k].dir == dir {
				has = true
			}
		}
		if has && !anyReady(p.sel) {
			return p
		}
	}
	return nil
}

// arrange: the running task t (direction dir on the shared channel) meets the parked task p. The
// receiver of the value keeps control afterwards, the sender parks again as runnable.
//
//go:norace
func arrange(t, p *task, dir int) {
	if dir == 2 {
		// t sends: p receives and runs on; t parks once its select has fired
		t.parkAfterSelect = true
		noteSwitch(t, p)
	} else if p.sel != nil {
		// t receives from a task waiting in a select: that task parks after its send
		p.parkAfterSelect = true
	}
	wakePartner(p)
}

// selectWait parks t as a select waiter; reports whether it was woken for a rendezvous.
//
//go:norace
func selectWait(t *task, cases []SelCase) bool {
	t.sel = cases
	poll(t)
	t.sel = nil
	if t.meet {
		t.meet = false
		return true
	}
	return false
}

// SelectCase is executed at the top of every communication clause: a channel operation succeeded.
//
//go:norace
func SelectCase() {
	t := cur()
	if t == nil {
		return
	}
	if t.parkAfterSelect {
		// this task was the sender of a rendezvous: the receiver runs on; touch nothing shared until rescheduled
		t.parkAfterSelect = false
		parkRunnable(t)
		return
	}
	progress++
}
