package zzsimrt

import "runtime"

func realGOMAXPROCS(n int) int { return runtime.GOMAXPROCS(n) }
func realNumCPU() int          { return runtime.NumCPU() }
