package zzsimrt

import (
	"runtime"
	"time"
)

func realGOMAXPROCS(n int) int { return runtime.GOMAXPROCS(n) }
func realNumCPU() int          { return runtime.NumCPU() }

func realSleep() { time.Sleep(500 * time.Microsecond) }
