// Package zzsimrt is the runtime of the C14 schedule simulation. It is copied
// into the scratch module next to an instrumented copy of pql; it is never
// part of the repository.
//
// Real goroutines ("tasks") execute real library code; exactly one of them runs
// at any instant. A task reaching a scheduling point decides — from the run's
// seeded policy or explicit schedule — who runs next, wakes that task and parks
// itself. Parking and waking use raw read(2)/write(2) on pipes, and every
// function here is //go:norace, so the harness creates no happens-before edge
// the race detector could see: under a fully serialised, replayable schedule the
// detector still reports every unsynchronised access pair of the library.
package zzsimrt

import (
	"sync"
	"unsafe"
)

// MaxTasks bounds the number of simulated callers in one run.
const MaxTasks = 8 + 1000

// HarnessTasks is the number of slots for simulated callers; the slots above it hold goroutines the
// library itself starts ("daemons"), which live across runs.
const HarnessTasks = 8

// Site flag bits (must match cmd/instr).
const (
	FlagPkgVar     = 1
	FlagMap        = 2
	FlagSync       = 4
	FlagEntry      = 8
	FlagEmptyBlock = 16
	hotMask        = FlagPkgVar | FlagMap | FlagSync | FlagEmptyBlock
)

// Event kinds.
const (
	EvStart = iota
	EvPreempt
	EvCallStart
	EvCallEnd
	EvSync
	EvBlocked
	EvRelease
	EvDone
)

// KindNames names the event kinds.
var KindNames = []string{"start", "preempt", "call-start", "call-end", "sync", "blocked", "release", "done"}

// Choice modes.
const (
	ChooseUniform = iota
	ChoosePriority
	ChooseStall
	ChooseExplicit
)

// Switch is one realised (or prescribed) transfer of control.
type Switch struct {
	Task  int    `json:"task"`
	Kind  int    `json:"kind"`
	Yield uint64 `json:"yield"` // the task's yield count at the event
	Site  uint32 `json:"site"`
	Next  int    `json:"next"`
}

// RunConfig is the scheduling policy of one run.
type RunConfig struct {
	NTasks    int
	Mode      int
	Seed      uint64
	PHot      uint32 // preemption probability at hot sites, in units of 2^-32
	ColdMean  uint32 // mean number of cold yields between preemptions (0 = never)
	StickPct  int    // chance (percent) to keep the running task at a non-preempt scheduling point
	Prio      [HarnessTasks]int
	PreemptAt [HarnessTasks][]uint64 // explicit preemption points (task yield counts, ascending)
	Victim    int                // ChooseStall: the stalled task
	Explicit  []Switch           // ChooseExplicit
	Budget    uint64             // max yields per task
	Fairness  uint64             // forced preemption after this many yields without a switch
	RecordHot bool               // record (yield count, site) of hot yields per task (dry pass)
}

// Outcome of a run.
const (
	OutcomeOK = iota
	OutcomeDeadlock
	OutcomeBudget
	// OutcomeStuck: nothing can run and somebody waits on a channel that nothing inside the
	// simulation will ever serve — not decidable here (reported as inconclusive, never as a violation).
	OutcomeStuck
)

// HotYield is one hot-site yield observed in a dry pass.
type HotYield struct {
	Yield uint64 `json:"yield"`
	Site  uint32 `json:"site"`
}

// RunResult reports what happened.
type RunResult struct {
	Outcome       int
	Detail        string
	Switches      []Switch
	Truncated     bool
	Sig           uint64
	Nontrivial    bool // some switch happened between two tasks that were both inside a library call
	SwitchCount   int
	Yields        [HarnessTasks]uint64
	Hot           [HarnessTasks][]HotYield
	OnceContended int // a task had to wait for another task's once-initialisation in progress
	LockContended int
	PreemptsFired int
	FnPairs       []uint64 // (site-from<<32 | site-to) of in-call switches, for site-pair coverage
	Daemons       int      // goroutines started by the library that are alive at the end of the run
	ClockJumps    int      // times the simulated clock was advanced (idle jumps and injected jumps)
	TimersFired   int
	SimNow        int64 // simulated nanoseconds since the start of the process
	DaemonSwitch  bool  // a library-started goroutine ran while a simulated caller was inside a library call
}

type task struct {
	g         uintptr
	n         uint64
	rng       uint64
	coldLeft  int64
	pi        int
	state     int
	blockedOn int
	rfd, wfd  int
	lastSite  uint32
	since     uint64
	inCall    bool
	prio      int
	stalled   bool
	onceF     func()
	onceObj   int
	onceRan   bool
	hot       []HotYield
	alive     bool
	daemon    bool
	wakeAt    int64  // tsSleeping: simulated time at which the task becomes runnable
	polledAt  uint64 // tsPolling: value of progress when the task last retried its channel operation
	body      func()
	waitCh    unsafe.Pointer // tsPolling in a plain send/receive: the channel ...
	waitDir   int            // ... and the direction (1 receive, 2 send)
	sel             []SelCase // tsPolling in a select: its cases
	parkAfterSelect bool      // after the select has fired this task parks as runnable (it was the sender of a rendezvous)
	condWait  bool           // parked in a sync.Cond wait until signalled
	callStart uint64         // yield count at the start of the current library call
	mapRng    uint64         // stream that permutes map iteration orders (MapKeys)
	meet      bool           // the partner of an unbuffered rendezvous has arrived: complete it with a blocking operation
}

const (
	tsIdle = iota
	tsRunnable
	tsBlocked
	tsDone
	tsPolling  // waiting in a channel operation / select; retries when something has happened
	tsSleeping // in a simulated sleep
)

var (
	siteFlags []uint8
	// SiteNames maps a site id to "file:line func" (generated).
	SiteNames []string

	active   bool
	cfg      RunConfig
	ntasks   int
	tasks    [MaxTasks]task
	mainR    int // main's wake-up pipe
	mainW    int
	readyR   int
	readyW   int
	pipesOK  bool
	rngCoord uint64
	expPos   int

	switches  [8192]Switch
	nsw       int
	truncated bool
	sig       uint64
	nontriv   bool
	swCount   int
	outcome   int
	detail    string
	onceCont  int
	lockCont  int
	preFired  int
	fnPairs   [4096]uint64
	nPairs    int
)

// NumSites returns the number of instrumented yield sites.
func NumSites() int { return len(siteFlags) }

// SiteFlag returns the flags of a site.
func SiteFlag(i uint32) uint8 {
	if int(i) < len(siteFlags) {
		return siteFlags[i]
	}
	return 0
}

// hiSlot bounds every scan of the task table: slots at or above it have never been used.
var hiSlot = HarnessTasks

//go:norace
func cur() *task {
	if !active {
		return nil
	}
	g := getg()
	for i := 0; i < hiSlot; i++ {
		if tasks[i].alive && tasks[i].state != tsDone && tasks[i].g == g {
			return &tasks[i]
		}
	}
	return nil
}

//go:norace
func idx(t *task) int {
	for i := 0; i < hiSlot; i++ {
		if &tasks[i] == t {
			return i
		}
	}
	return -1
}

//go:norace
func xorshift(s *uint64) uint64 {
	x := *s
	x ^= x >> 12
	x ^= x << 25
	x ^= x >> 27
	*s = x
	return x * 2685821657736338717
}

// Yield is inserted before every statement of the instrumented library.
//
//go:norace
func Yield(site uint32) {
	if !active {
		return
	}
	t := cur()
	if t == nil {
		return
	}
	t.n++
	t.since++
	t.lastSite = site
	var fl uint8
	if int(site) < len(siteFlags) {
		fl = siteFlags[site]
	}
	hot := fl&hotMask != 0
	if hot && cfg.RecordHot && len(t.hot) < cap(t.hot) {
		t.hot = append(t.hot, HotYield{t.n, site})
	}
	if t.n-t.callStart > cfg.Budget {
		outcome = OutcomeBudget
		detail = "step budget exceeded"
		abort(t)
	}
	i := idx(t)
	var pa []uint64
	if i < HarnessTasks {
		pa = cfg.PreemptAt[i]
	}
	if t.pi < len(pa) && pa[t.pi] <= t.n {
		for t.pi < len(pa) && pa[t.pi] <= t.n {
			t.pi++
		}
		if cfg.Mode == ChoosePriority {
			// PCT priority change point: drop below everything else
			t.prio = -int(t.n) - 1
		}
		if cfg.Mode == ChooseStall && i == cfg.Victim {
			t.stalled = true
		}
		preFired++
		reschedule(t, EvPreempt)
		return
	}
	if cfg.Mode == ChooseExplicit {
		if expPos < len(cfg.Explicit) {
			e := &cfg.Explicit[expPos]
			if e.Kind == EvPreempt && e.Task == i && e.Yield == t.n {
				reschedule(t, EvPreempt)
			}
		}
		return
	}
	if cfg.Fairness > 0 && t.since >= cfg.Fairness {
		reschedule(t, EvPreempt)
		return
	}
	if hot {
		if cfg.PHot != 0 && uint32(xorshift(&t.rng)>>32) < cfg.PHot {
			preFired++
			reschedule(t, EvPreempt)
		}
		return
	}
	if cfg.ColdMean != 0 {
		t.coldLeft--
		if t.coldLeft <= 0 {
			t.coldLeft = 1 + int64(xorshift(&t.rng)%uint64(2*cfg.ColdMean))
			preFired++
			reschedule(t, EvPreempt)
		}
	}
}

// CallStart marks the beginning of a library call by the current task (a scheduling point).
//
//go:norace
func CallStart() {
	t := cur()
	if t == nil {
		return
	}
	reschedule(t, EvCallStart)
	t.inCall = true
	t.callStart = t.n // the step budget is per call
}

// CallEnd marks the end of a library call by the current task (a scheduling point).
//
//go:norace
func CallEnd() {
	t := cur()
	if t == nil {
		return
	}
	t.inCall = false
	reschedule(t, EvCallEnd)
}

// TaskYields returns the current task's yield counter.
//
//go:norace
func TaskYields() uint64 {
	t := cur()
	if t == nil {
		return 0
	}
	return t.n
}

//go:norace
func runnable(i int) bool {
	t := &tasks[i]
	if !t.alive {
		return false
	}
	if t.state == tsSleeping && t.wakeAt <= simNow {
		t.state = tsRunnable
	}
	if t.state == tsPolling {
		return t.polledAt != progress // something happened since its last attempt
	}
	if t.state != tsRunnable {
		return false
	}
	if t.stalled {
		// a stalled victim runs only when every other task has finished
		for j := 0; j < ntasks; j++ {
			if j != i && tasks[j].state != tsDone {
				if tasks[j].state != tsRunnable {
					continue // would deadlock otherwise: let the victim run
				}
				return false
			}
		}
	}
	return true
}

//go:norace
func choose(c int, kind int) int {
	var cand [MaxTasks]int
	nc := 0
	for {
		nc = 0
		for i := 0; i < hiSlot; i++ {
			if runnable(i) {
				cand[nc] = i
				nc++
			}
		}
		if nc > 0 {
			break
		}
		// nothing can run now: jump the simulated clock to the next timer or sleeper, if any
		if !advanceToNextEvent() {
			if FreeDaemons && patience() {
				continue // natively running goroutines of the library may still serve a polling caller
			}
			return -1
		}
	}
	curOK := c >= 0 && runnable(c)
	switch cfg.Mode {
	case ChooseExplicit:
		if expPos < len(cfg.Explicit) && c >= 0 {
			e := &cfg.Explicit[expPos]
			if e.Task == c && e.Kind == kind && e.Yield == tasks[c].n {
				expPos++
				if e.Next >= 0 && e.Next < hiSlot && runnable(e.Next) {
					return e.Next
				}
			}
		} else if expPos < len(cfg.Explicit) && c < 0 {
			e := &cfg.Explicit[expPos]
			if e.Kind == EvStart {
				expPos++
				if e.Next >= 0 && e.Next < hiSlot && runnable(e.Next) {
					return e.Next
				}
			}
		}
		if curOK {
			return c
		}
		return cand[0]
	case ChoosePriority:
		best := cand[0]
		for k := 1; k < nc; k++ {
			if tasks[cand[k]].prio > tasks[best].prio {
				best = cand[k]
			}
		}
		return best
	}
	// uniform (also used by stall mode for the non-stalled tasks)
	if kind == EvPreempt {
		// prefer somebody else: a preemption that resumes the same task explores nothing
		if nc > 1 || !curOK {
			for {
				k := cand[xorshift(&rngCoord)%uint64(nc)]
				if k != c || nc == 1 {
					return k
				}
			}
		}
		return c
	}
	if curOK && int(xorshift(&rngCoord)%100) < cfg.StickPct {
		return c
	}
	return cand[xorshift(&rngCoord)%uint64(nc)]
}

// reschedule is executed by the running task at a scheduling point (its state is already updated).
//
//go:norace
func reschedule(t *task, kind int) {
	c := idx(t)
	if harnessDone() {
		// the run is over as soon as the last simulated caller has finished; goroutines the library
		// started stay parked where they are and continue in the next run of this process
		if t.daemon && t.state != tsDone {
			wakeMain('D')
			rawPark(t.rfd)
			return
		}
		wakeMain('D')
		return
	}
	next := choose(c, kind)
	if next < 0 {
		outcome = OutcomeDeadlock
		for i := 0; i < hiSlot; i++ {
			if tasks[i].alive && tasks[i].state == tsPolling {
				outcome = OutcomeStuck
			}
		}
		detail = describeDeadlock()
		abort(t)
		return
	}
	if next == c {
		return
	}
	record(c, kind, t.n, t.lastSite, next)
	t.since = 0
	// After the wake-up the next task runs: a finished task must not touch its slot any more (the slot
	// of a finished daemon may be handed to a new goroutine at once).
	finished := t.state == tsDone
	rfd := t.rfd
	rawWake(tasks[next].wfd)
	if !finished {
		rawPark(rfd)
	}
}

// TraceFD, if >= 0, receives one 40-byte record per switch (raw write, no buffering), so that the
// schedule of a run that ends in a race report or a crash can be recovered from outside.
var TraceFD = -1

// TraceMark writes a marker record (task = -2) carrying v, e.g. the index of the run about to start.
//
//go:norace
func TraceMark(v uint64) {
	traceRec(-2, 0, v, 0, 0)
}

//go:norace
func traceRec(c, kind int, n uint64, site uint32, next int) {
	if TraceFD < 0 {
		return
	}
	var b [40]byte
	vals := [5]uint64{uint64(int64(c)), uint64(kind), n, uint64(site), uint64(int64(next))}
	for i := 0; i < 5; i++ {
		v := vals[i]
		for k := 0; k < 8; k++ {
			b[i*8+k] = byte(v)
			v >>= 8
		}
	}
	rawWrite(TraceFD, &b[0], len(b))
}

var patienceLeft = 4000

// patience waits a little in REAL time (degraded mode only) and makes every polling task retry.
//
//go:norace
func patience() bool {
	polling := false
	for i := 0; i < hiSlot; i++ {
		if tasks[i].alive && tasks[i].state == tsPolling {
			polling = true
		}
	}
	if !polling || patienceLeft <= 0 {
		return false
	}
	patienceLeft--
	realSleep()
	progress++
	return true
}

//go:norace
func harnessDone() bool {
	for i := 0; i < ntasks; i++ {
		if tasks[i].state != tsDone {
			return false
		}
	}
	return true
}

//go:norace
func record(c, kind int, n uint64, site uint32, next int) {
	traceRec(c, kind, n, site, next)
	swCount++
	if nsw < len(switches) {
		switches[nsw] = Switch{Task: c, Kind: kind, Yield: n, Site: site, Next: next}
		nsw++
	} else {
		truncated = true
	}
	// interleaving signature: FNV-1a over (from-task, site, to-task, to-site)
	var ns uint32
	if next >= 0 {
		ns = tasks[next].lastSite
	}
	h := fnv(sig, uint64(c+1))
	h = fnv(h, uint64(site))
	h = fnv(h, uint64(next+1))
	h = fnv(h, uint64(ns))
	h = fnv(h, uint64(kind))
	sig = h
	if next >= HarnessTasks {
		for i := 0; i < ntasks; i++ {
			if tasks[i].inCall {
				daemonSwitch = true
			}
		}
	}
	if c >= 0 && next >= 0 && tasks[c].inCall && tasks[next].inCall {
		nontriv = true
		if nPairs < len(fnPairs) {
			fnPairs[nPairs] = uint64(site)<<32 | uint64(ns)
			nPairs++
		}
	}
}

//go:norace
func fnv(h, v uint64) uint64 {
	for k := 0; k < 8; k++ {
		h ^= v & 0xff
		h *= 1099511628211
		v >>= 8
	}
	return h
}

//go:norace
func describeDeadlock() string {
	s := "no runnable task:"
	for i := 0; i < hiSlot; i++ {
		if !tasks[i].alive {
			continue
		}
		switch tasks[i].state {
		case tsBlocked:
			if tasks[i].blockedOn < 0 {
				s += " task " + itoa(i) + " waits on a sync.Cond;"
				continue
			}
			o := &objs[tasks[i].blockedOn]
			s += " task " + itoa(i) + " waits for " + objKindNames[o.kind] + "#" + itoa(tasks[i].blockedOn) + " held by task " + itoa(o.owner) + ";"
		case tsDone:
			s += " task " + itoa(i) + " done;"
		case tsPolling:
			s += " task " + itoa(i) + " waits in a channel operation;"
		default:
			s += " task " + itoa(i) + " state " + itoa(tasks[i].state) + ";"
		}
	}
	return s
}

//go:norace
func itoa(v int) string {
	if v == 0 {
		return "0"
	}
	neg := v < 0
	if neg {
		v = -v
	}
	var b [24]byte
	i := len(b)
	for v > 0 {
		i--
		b[i] = byte('0' + v%10)
		v /= 10
	}
	if neg {
		i--
		b[i] = '-'
	}
	return string(b[i:])
}

// abort ends the run abnormally: main is told, the calling task never resumes.
//
//go:norace
func abort(t *task) {
	wakeMain('A')
	for {
		rawPark(t.rfd)
	}
}

//go:norace
func wakeMain(b byte) {
	rawWriteByte(mainW, b)
}

var (
	runMu sync.Mutex
	wg    sync.WaitGroup
)

// Run executes bodies[i] as task i under cfg and returns when all finished (or the run aborted).
// It must not be called concurrently.
func Run(c *RunConfig, bodies []func(task int)) *RunResult {
	runMu.Lock()
	defer runMu.Unlock()
	setup(c, len(bodies))
	for i := range bodies {
		wg.Add(1)
		go taskMain(i, bodies[i])
	}
	res := drive(len(bodies))
	if res.Outcome == OutcomeOK {
		wg.Wait() // everything the tasks did happens-before what follows
	}
	return res
}

func taskMain(i int, body func(int)) {
	defer wg.Done()
	enter(i)
	body(i)
	leave(i)
}

//go:norace
func enter(i int) {
	tasks[i].g = getg()
	rawWriteByte(readyW, 'r')
	rawPark(tasks[i].rfd)
}

//go:norace
func leave(i int) {
	t := &tasks[i]
	t.state = tsDone
	t.inCall = false
	progress++
	reschedule(t, EvDone) // nothing of the slot is touched after this
}

//go:norace
func setup(c *RunConfig, n int) {
	if n > HarnessTasks {
		panic("zzsimrt: too many tasks")
	}
	if !pipesOK {
		mainR, mainW = rawPipe()
		readyR, readyW = rawPipe()
		for i := 0; i < HarnessTasks; i++ {
			tasks[i].rfd, tasks[i].wfd = rawPipe()
		}
		// daemon slots get their pipes when they are first used
		pipesOK = true
	}
	cfg = *c
	if cfg.Budget == 0 {
		cfg.Budget = 5_000_000
	}
	ntasks = n
	rngCoord = c.Seed*0x9e3779b97f4a7c15 + 0x1234567
	if rngCoord == 0 {
		rngCoord = 1
	}
	expPos = 0
	nsw, truncated, sig, nontriv, swCount = 0, false, 14695981039346656037, false, 0
	outcome, detail = OutcomeOK, ""
	onceCont, lockCont, preFired, nPairs = 0, 0, 0, 0
	patienceLeft = 4000
	clockJumps, timersFired, daemonSwitch = 0, 0, false
	for i := HarnessTasks; i < hiSlot; i++ {
		// goroutines the library started in earlier runs continue; their step accounting starts afresh
		tasks[i].n, tasks[i].since, tasks[i].pi, tasks[i].stalled = 0, 0, 0, false
	}
	for i := 0; i < n; i++ {
		t := &tasks[i]
		rfd, wfd := t.rfd, t.wfd
		*t = task{rfd: rfd, wfd: wfd, alive: true}
		t.rng = (c.Seed+uint64(i)+1)*0xbf58476d1ce4e5b9 | 1
		t.state = tsRunnable
		t.prio = c.Prio[i]
		if cfg.ColdMean != 0 {
			t.coldLeft = 1 + int64(xorshift(&t.rng)%uint64(2*cfg.ColdMean))
		}
		if cfg.RecordHot {
			t.hot = make([]HotYield, 0, 16384)
		}
	}
}

//go:norace
func drive(n int) *RunResult {
	for i := 0; i < n; i++ {
		rawReadByte(readyR)
	}
	active = true
	first := choose(-1, EvStart)
	record(-1, EvStart, 0, 0, first)
	rawWake(tasks[first].wfd)
	b := rawReadByte(mainR)
	active = false
	res := &RunResult{Outcome: outcome, Detail: detail, Truncated: truncated, Sig: sig, Nontrivial: nontriv, SwitchCount: swCount,
		OnceContended: onceCont, LockContended: lockCont, PreemptsFired: preFired}
	if b == 'D' {
		res.Outcome = OutcomeOK
	}
	res.Switches = make([]Switch, nsw)
	copy(res.Switches, switches[:nsw])
	res.FnPairs = make([]uint64, nPairs)
	copy(res.FnPairs, fnPairs[:nPairs])
	for i := 0; i < n; i++ {
		res.Yields[i] = tasks[i].n
		res.Hot[i] = tasks[i].hot
		tasks[i].alive = false
	}
	res.Daemons = 0
	for i := HarnessTasks; i < hiSlot; i++ {
		if tasks[i].alive && tasks[i].state != tsDone {
			res.Daemons++
		}
	}
	res.ClockJumps, res.TimersFired, res.SimNow = clockJumps, timersFired, simNow
	res.DaemonSwitch = daemonSwitch
	return res
}
