package zzsimrt

import (
	"sync"
	"unsafe"
)

// Sync shims: the instrumenter routes (*sync.Once).Do, (*sync.Mutex).* and
// (*sync.RWMutex).* through these. A shim first makes the operation a scheduling
// point and — if the object is held by a parked task — marks the caller blocked,
// so that no task ever blocks inside the Go runtime on something a parked task
// holds. Then the REAL primitive is invoked on the REAL object, so the race
// detector sees the program's genuine happens-before edges.

const (
	objOnce = iota
	objMutex
	objRW
)

var objKindNames = []string{"once", "mutex", "rwmutex"}

type obj struct {
	ptr     unsafe.Pointer
	kind    int
	owner   int // task holding it exclusively (-1 none)
	readers int
	held    bool
}

var (
	objs  [256]obj
	nobjs int
)

//go:norace
func findObj(p unsafe.Pointer, kind int) int {
	for i := 0; i < nobjs; i++ {
		if objs[i].ptr == p {
			return i
		}
	}
	if nobjs < len(objs) {
		objs[nobjs] = obj{ptr: p, kind: kind, owner: -1}
		nobjs++
		return nobjs - 1
	}
	// table full: recycle an entry nobody holds or waits for (locks living in per-call values come and go)
	for i := 0; i < nobjs; i++ {
		if objs[i].held || objs[i].readers > 0 {
			continue
		}
		waited := false
		for k := 0; k < hiSlot; k++ {
			if tasks[k].alive && tasks[k].state == tsBlocked && tasks[k].blockedOn == i {
				waited = true
			}
		}
		if !waited {
			objs[i] = obj{ptr: p, kind: kind, owner: -1}
			return i
		}
	}
	panic("zzsimrt: too many sync objects held at the same time")
}

// block marks t blocked on object o and hands control to somebody else.
//
//go:norace
func block(t *task, o int) {
	t.state = tsBlocked
	t.blockedOn = o
	reschedule(t, EvBlocked)
	// woken: the releaser made us runnable
}

//go:norace
func released(t *task, o int) {
	for i := 0; i < hiSlot; i++ {
		if tasks[i].state == tsBlocked && tasks[i].blockedOn == o {
			tasks[i].state = tsRunnable
		}
	}
	reschedule(t, EvRelease)
}

// OnceDo replaces o.Do(f).
//
//go:norace
func OnceDo(o *sync.Once, f func()) {
	t := cur()
	if t == nil {
		o.Do(f)
		return
	}
	reschedule(t, EvSync)
	// (look the object up only after the scheduling point, and again after every wait: entries of the
	// object table are recycled while nobody holds or awaits them)
	oi := findObj(unsafe.Pointer(o), objOnce)
	me := idx(t)
	if objs[oi].held && objs[oi].owner == me {
		// o.Do called from inside its own initialiser: the real primitive would block forever
		outcome = OutcomeDeadlock
		detail = "task " + itoa(me) + " calls Do on a sync.Once from inside that once's own function"
		abort(t)
	}
	for objs[oi].held && objs[oi].owner != me {
		onceCont++
		block(t, oi)
		oi = findObj(unsafe.Pointer(o), objOnce)
	}
	t.onceF = f
	t.onceObj = oi
	t.onceRan = false
	o.Do(onceThunk)
	if t.onceRan {
		// The release is a scheduling point only now, after the real Do has returned: while the
		// initialiser's deferred bookkeeping runs, the real sync.Once still holds its internal mutex.
		t.onceRan = false
		reschedule(t, EvRelease)
	}
}

// onceThunk runs inside the real sync.Once, i.e. only for the call that performs the initialisation.
//
//go:norace
func onceThunk() {
	t := cur()
	f := t.onceF
	oi := t.onceObj
	objs[oi].held = true
	objs[oi].owner = idx(t)
	defer onceDone(t, oi)
	f()
}

//go:norace
func onceDone(t *task, oi int) {
	objs[oi].held = false
	objs[oi].owner = -1
	for i := 0; i < hiSlot; i++ {
		if tasks[i].state == tsBlocked && tasks[i].blockedOn == oi {
			tasks[i].state = tsRunnable
		}
	}
	t.onceRan = true
}

// MutexLock replaces m.Lock().
//
//go:norace
func MutexLock(m *sync.Mutex) {
	t := cur()
	if t == nil {
		m.Lock()
		return
	}
	reschedule(t, EvSync)
	oi := findObj(unsafe.Pointer(m), objMutex)
	for objs[oi].held {
		lockCont++
		block(t, oi)
		oi = findObj(unsafe.Pointer(m), objMutex)
	}
	objs[oi].held = true
	objs[oi].owner = idx(t)
	m.Lock()
}

// MutexTryLock replaces m.TryLock().
//
//go:norace
func MutexTryLock(m *sync.Mutex) bool {
	t := cur()
	if t == nil {
		return m.TryLock()
	}
	reschedule(t, EvSync)
	oi := findObj(unsafe.Pointer(m), objMutex)
	if objs[oi].held {
		return false
	}
	if !m.TryLock() {
		return false
	}
	objs[oi].held = true
	objs[oi].owner = idx(t)
	return true
}

// MutexUnlock replaces m.Unlock().
//
//go:norace
func MutexUnlock(m *sync.Mutex) {
	t := cur()
	if t == nil {
		m.Unlock()
		return
	}
	oi := findObj(unsafe.Pointer(m), objMutex)
	m.Unlock()
	objs[oi].held = false
	objs[oi].owner = -1
	released(t, oi)
}

// RWLock replaces m.Lock() on a sync.RWMutex.
//
//go:norace
func RWLock(m *sync.RWMutex) {
	t := cur()
	if t == nil {
		m.Lock()
		return
	}
	reschedule(t, EvSync)
	oi := findObj(unsafe.Pointer(m), objRW)
	for objs[oi].held || objs[oi].readers > 0 {
		lockCont++
		block(t, oi)
		oi = findObj(unsafe.Pointer(m), objRW)
	}
	objs[oi].held = true
	objs[oi].owner = idx(t)
	m.Lock()
}

// RWUnlock replaces m.Unlock() on a sync.RWMutex.
//
//go:norace
func RWUnlock(m *sync.RWMutex) {
	t := cur()
	if t == nil {
		m.Unlock()
		return
	}
	oi := findObj(unsafe.Pointer(m), objRW)
	m.Unlock()
	objs[oi].held = false
	objs[oi].owner = -1
	released(t, oi)
}

// RWRLock replaces m.RLock().
//
//go:norace
func RWRLock(m *sync.RWMutex) {
	t := cur()
	if t == nil {
		m.RLock()
		return
	}
	reschedule(t, EvSync)
	oi := findObj(unsafe.Pointer(m), objRW)
	for objs[oi].held {
		lockCont++
		block(t, oi)
		oi = findObj(unsafe.Pointer(m), objRW)
	}
	objs[oi].readers++
	if objs[oi].owner < 0 {
		objs[oi].owner = idx(t) // for deadlock reports: one of the readers
	}
	m.RLock()
}

// RWRUnlock replaces m.RUnlock().
//
//go:norace
func RWRUnlock(m *sync.RWMutex) {
	t := cur()
	if t == nil {
		m.RUnlock()
		return
	}
	oi := findObj(unsafe.Pointer(m), objRW)
	m.RUnlock()
	objs[oi].readers--
	if objs[oi].readers == 0 && !objs[oi].held {
		objs[oi].owner = -1
	}
	released(t, oi)
}

// WaitGroup shims: the counter is mirrored so that Wait never blocks inside the Go runtime on
// goroutines that are parked by the scheduler.
type wgEntry struct {
	ptr unsafe.Pointer
	n   int
}

var wgs [32]wgEntry

//go:norace
func wgFind(p unsafe.Pointer) *wgEntry {
	for i := range wgs {
		if wgs[i].ptr == p {
			return &wgs[i]
		}
	}
	for i := range wgs {
		if wgs[i].ptr == nil || wgs[i].n == 0 {
			wgs[i] = wgEntry{ptr: p}
			return &wgs[i]
		}
	}
	panic("zzsimrt: too many WaitGroups")
}

//go:norace
func wgAdjust(w *sync.WaitGroup, d int) {
	if cur() == nil {
		return
	}
	wgFind(unsafe.Pointer(w)).n += d
	progress++
}

// WaitGroupAdd replaces wg.Add(n).
func WaitGroupAdd(w *sync.WaitGroup, n int) {
	wgAdjust(w, n)
	w.Add(n)
}

// WaitGroupDone replaces wg.Done().
func WaitGroupDone(w *sync.WaitGroup) {
	wgAdjust(w, -1)
	w.Done()
}

// WaitGroupWait replaces wg.Wait().
func WaitGroupWait(w *sync.WaitGroup) {
	wgWait(w)
	w.Wait() // returns at once; gives the race detector the real happens-before edge
}

//go:norace
func wgWait(w *sync.WaitGroup) {
	t := cur()
	if t == nil || FreeDaemons {
		return // degraded mode: the real Wait blocks; the goroutines it waits for run natively
	}
	reschedule(t, EvSync)
	e := wgFind(unsafe.Pointer(w))
	for e.n > 0 {
		poll(t)
	}
}

// sync.Pool shims: a real sync.Pool hands items out per processor and, in race builds, drops a random
// quarter of all Puts — neither can be seeded. Inside a simulation every pool is a LIFO stack owned by
// the simulator; whether a Put is dropped (modelling eviction) is decided by the task's seeded stream.
type poolEntry struct {
	ptr   unsafe.Pointer
	items []any
	hb    uint32
}

var pools [64]poolEntry

//go:norace
func poolFind(p unsafe.Pointer) *poolEntry {
	for i := range pools {
		if pools[i].ptr == p {
			return &pools[i]
		}
	}
	for i := range pools {
		if pools[i].ptr == nil {
			pools[i].ptr = p
			return &pools[i]
		}
	}
	panic("zzsimrt: too many sync.Pools")
}

// PoolGet replaces p.Get().
func PoolGet(p *sync.Pool) any {
	if cur() == nil {
		return p.Get()
	}
	e := poolFind(unsafe.Pointer(p))
	if x, ok := poolPop(e); ok {
		hbAcquire(&e.hb) // what the putter did to the item happens-before its reuse
		return x
	}
	if p.New != nil {
		return p.New()
	}
	return nil
}

// PoolPut replaces p.Put(x).
func PoolPut(p *sync.Pool, x any) {
	if cur() == nil {
		p.Put(x)
		return
	}
	if x == nil {
		return
	}
	e := poolFind(unsafe.Pointer(p))
	hbRelease(&e.hb)
	poolPush(e, x)
}

//go:norace
func poolPop(e *poolEntry) (any, bool) {
	n := len(e.items)
	if n == 0 {
		return nil, false
	}
	x := e.items[n-1]
	e.items[n-1] = nil
	e.items = e.items[:n-1]
	return x, true
}

//go:norace
func poolPush(e *poolEntry, x any) {
	t := cur()
	if t != nil {
		if t.mapRng == 0 {
			t.mapRng = (cfg.Seed+uint64(idx(t))+7)*0x94d049bb133111eb | 1
		}
		if xorshift(&t.mapRng)%4 == 0 {
			return // evicted
		}
	}
	if len(e.items) < 256 {
		e.items = append(e.items, x)
	}
}

// GOMAXPROCS replaces runtime.GOMAXPROCS: inside a simulation the answer is a per-run knob.
//
//go:norace
func GOMAXPROCS(n int) int {
	if cur() == nil {
		return realGOMAXPROCS(n)
	}
	return simProcs()
}

// NumCPU replaces runtime.NumCPU.
//
//go:norace
func NumCPU() int {
	if cur() == nil {
		return realNumCPU()
	}
	return simProcs()
}

//go:norace
func simProcs() int {
	return []int{1, 2, 4, 16}[(cfg.Seed>>7)%4]
}

// sync.Cond shims: Wait releases the (shimmed) lock, parks the task in the simulator until a Signal or
// Broadcast names it, and takes the lock again; the real Cond is never waited on. Like the real one,
// a Signal without a waiter is lost. The happens-before edges are those of the lock.
type condEntry struct {
	ptr     unsafe.Pointer
	waiters [HarnessTasks + 24]int
	n       int
}

var conds [32]condEntry

//go:norace
func condFind(p unsafe.Pointer) *condEntry {
	for i := range conds {
		if conds[i].ptr == p {
			return &conds[i]
		}
	}
	for i := range conds {
		if conds[i].ptr == nil || conds[i].n == 0 {
			conds[i] = condEntry{ptr: p}
			return &conds[i]
		}
	}
	panic("zzsimrt: too many sync.Conds")
}

// CondWait replaces c.Wait().
func CondWait(c *sync.Cond) {
	if cur() == nil {
		c.Wait()
		return
	}
	switch l := c.L.(type) {
	case *sync.Mutex:
		condEnqueue(c)
		MutexUnlock(l)
		condPark(c)
		MutexLock(l)
	case *sync.RWMutex:
		condEnqueue(c)
		RWUnlock(l)
		condPark(c)
		RWLock(l)
	default:
		panic("zzsimrt: sync.Cond with a Locker that is neither *sync.Mutex nor *sync.RWMutex")
	}
}

//go:norace
func condEnqueue(c *sync.Cond) {
	t := cur()
	e := condFind(unsafe.Pointer(c))
	if e.n >= len(e.waiters) {
		panic("zzsimrt: too many waiters on one sync.Cond")
	}
	e.waiters[e.n] = idx(t)
	e.n++
	t.condWait = true
}

//go:norace
func condPark(c *sync.Cond) {
	t := cur()
	for t.condWait {
		t.state = tsBlocked
		t.blockedOn = -1
		reschedule(t, EvBlocked)
	}
}

// CondSignal replaces c.Signal().
//
//go:norace
func CondSignal(c *sync.Cond) {
	t := cur()
	if t == nil {
		c.Signal()
		return
	}
	e := condFind(unsafe.Pointer(c))
	if e.n > 0 {
		// Which waiter a Signal wakes is not specified ("wakes one goroutine waiting on c"). The runtime
		// happens to wake the oldest; the simulator does so in half of the processes and picks one from
		// the signalling task's seeded stream in the other half.
		i := 0
		if e.n > 1 && (cfg.Seed>>9)&1 == 1 {
			if t.mapRng == 0 {
				t.mapRng = (cfg.Seed+uint64(idx(t))+7)*0x94d049bb133111eb | 1
			}
			i = int(xorshift(&t.mapRng) % uint64(e.n))
		}
		w := e.waiters[i]
		copy(e.waiters[i:], e.waiters[i+1:e.n])
		e.n--
		tasks[w].condWait = false
		tasks[w].state = tsRunnable
		progress++
	}
	reschedule(t, EvRelease)
}

// CondBroadcast replaces c.Broadcast().
//
//go:norace
func CondBroadcast(c *sync.Cond) {
	t := cur()
	if t == nil {
		c.Broadcast()
		return
	}
	e := condFind(unsafe.Pointer(c))
	for i := 0; i < e.n; i++ {
		w := e.waiters[i]
		tasks[w].condWait = false
		tasks[w].state = tsRunnable
	}
	if e.n > 0 {
		progress++
	}
	e.n = 0
	reschedule(t, EvRelease)
}
