package zzsimrt

import (
	"reflect"
	"sort"
)

// Go randomises the start of every range over a map from a generator nobody can seed. Inside a
// simulation the instrumenter routes `for k, v := range m` (m a map) through MapKeys: the keys are
// brought into a canonical order and then permuted by the task's own seeded stream, so the iteration
// order is still arbitrary — code that wrongly depends on it still misbehaves — but it is a function
// of the seed: one seed, one execution, and such a failure replays exactly.

// MapKeys returns the keys of m in the order the simulated range statement visits them.
func MapKeys[K comparable, V any](m map[K]V) []K {
	keys := make([]K, 0, len(m))
	for k := range m {
		keys = append(keys, k)
	}
	t := cur()
	if t == nil || len(keys) < 2 {
		return keys
	}
	if !canonical(keys) {
		noteUnorderedMap()
		return keys
	}
	shuffle(t, len(keys), func(i, j int) { keys[i], keys[j] = keys[j], keys[i] })
	return keys
}

// canonical sorts keys if their type has a natural order; reports whether it could.
func canonical[K comparable](keys []K) bool {
	if len(keys) == 0 {
		return true
	}
	switch reflect.TypeOf(keys[0]).Kind() {
	case reflect.String:
		sort.Slice(keys, func(i, j int) bool { return reflect.ValueOf(keys[i]).String() < reflect.ValueOf(keys[j]).String() })
	case reflect.Int, reflect.Int8, reflect.Int16, reflect.Int32, reflect.Int64:
		sort.Slice(keys, func(i, j int) bool { return reflect.ValueOf(keys[i]).Int() < reflect.ValueOf(keys[j]).Int() })
	case reflect.Uint, reflect.Uint8, reflect.Uint16, reflect.Uint32, reflect.Uint64, reflect.Uintptr:
		sort.Slice(keys, func(i, j int) bool { return reflect.ValueOf(keys[i]).Uint() < reflect.ValueOf(keys[j]).Uint() })
	case reflect.Float32, reflect.Float64:
		sort.Slice(keys, func(i, j int) bool { return reflect.ValueOf(keys[i]).Float() < reflect.ValueOf(keys[j]).Float() })
	case reflect.Bool:
		sort.Slice(keys, func(i, j int) bool { return !reflect.ValueOf(keys[i]).Bool() && reflect.ValueOf(keys[j]).Bool() })
	default:
		return false // pointers, interfaces, structs: no order that is stable across processes
	}
	return true
}

// UnorderedMapRanges counts ranges over maps whose key type has no canonical order (left to the runtime).
var UnorderedMapRanges int

//go:norace
func noteUnorderedMap() { UnorderedMapRanges++ }

//go:norace
func shuffle(t *task, n int, swap func(i, j int)) {
	if t.mapRng == 0 {
		t.mapRng = (cfg.Seed+uint64(idx(t))+7)*0x94d049bb133111eb | 1
	}
	for i := n - 1; i > 0; i-- {
		j := int(xorshift(&t.mapRng) % uint64(i+1))
		swap(i, j)
	}
}
