// Package pqlgen is the seeded workload generator shared by the C14 and C16
// simulations. It works on the token level so that layout (gaps, comments,
// line breaks) can be varied without changing meaning. It never emits a
// parenthesised scalar expression (DESIGN.md §3.6).
package pqlgen

import (
	"strings"

	"github.com/runreveal/pql/zzverif/prng"
)

// Tok is one source token. Tight means the gap before it must be plain spaces
// (no newline, no comment): used inside expressions whose source text becomes
// a column name.
type Tok struct {
	S     string
	Tight bool
}

// StmtKind classifies a generated statement for reach accounting.
type StmtKind int

const (
	KQuery         StmtKind = iota // valid query not depending on let names
	KQueryUsesName                 // valid query mentioning a let-pool name
	KLet                           // let expected to be accepted if its deps are bound
	KLetBad                        // let that must fail
	KQueryBad                      // query that must fail (lex/parse/compile)
	KEmpty                         // no tokens
	KCommentOnly                   // only a comment
)

func (k StmtKind) String() string {
	return [...]string{"query", "query-uses-name", "let", "let-bad", "query-bad", "empty", "comment-only"}[k]
}

// Stmt is one generated statement (without the terminating semicolon).
type Stmt struct {
	Kind StmtKind
	Toks []Tok
	// Comment is emitted for KCommentOnly statements.
	Comment string
}

var (
	// LetNames is the pool of names bound by let statements and parameters; queries
	// mention them both bound and unbound so that the prelude in force is visible in the SQL.
	LetNames = []string{"x", "y", "n", "s", "lim"}
	Columns  = []string{"a", "b", "c", "k", "EventType", "State", "`my col`", "`semi;col`", "m", "`tick``tock`", "`d``;b`", "`back\\`", "`sl\\;`", "`nb\u00a0sp`", "`#hash`", "`trail  `"}
	Tables   = []string{"T", "U", "Logs", "StormEvents", "`my table`", "`t;1`"}
	// KnownFuncs lists every built-in of the function table with a correct arity.
	KnownFuncs = []struct {
		Name  string
		Arity int
	}{
		{"count", 0}, {"countif", 1}, {"iif", 3}, {"iff", 3}, {"isnotnull", 1}, {"isnull", 1},
		{"not", 1}, {"now", 0}, {"strcat", 2}, {"strcat", 3}, {"tolower", 1}, {"toupper", 1},
	}
	UnknownFuncs = []string{"foo", "toString", "ago", "bin", "strlen", "Count", "notnull"}
	binOps       = []string{"==", "!=", "<", "<=", ">", ">=", "+", "-", "*", "/", "%", "and", "or", "=~", "!~"}
	Strings      = []string{
		`"abc"`, `'abc'`, `"a;b"`, `'x;//y'`, `"// not a comment"`, `"it's"`, `'say "hi"'`, `"esc\"q;"`, `'t\tn\n'`,
		`""`, `"héllo wörld"`, `"日本;語"`, `'semi;colon;'`, `"back\\slash"`, "\"bad\xffutf8;\"", "'nul\x00;byte'",
		"\"ctl\x1a\x01\x7f;\"", "\"bom\ufeffinside\"", "'trailing space  '", "'  leading; and\ttab'", "\"#not a comment\"", "\"-- nor this;\"",
	}
	Numbers = []string{"0", "1", "5", "42", "3.14", "1e3", "0x1F", "007", "10", "100", ".5", "2.50"}
)

// G is a generator bound to one PRNG stream.
type G struct{ R *prng.Rand }

func (g *G) pick(ss []string) string { return ss[g.R.Intn(len(ss))] }

func t(s string) Tok { return Tok{S: s} }

func toks(ss ...string) []Tok {
	out := make([]Tok, len(ss))
	for i, s := range ss {
		out[i] = Tok{S: s}
	}
	return out
}

// tight marks all tokens after the first as tight.
func tight(ts []Tok) []Tok {
	for i := range ts {
		if i > 0 {
			ts[i].Tight = true
		}
	}
	return ts
}

// atom returns a primary expression. names is the set of let-pool names the
// expression may mention (may be empty).
func (g *G) atom(depth int, names []string) []Tok {
	w := []int{6, 4, 3, 1, 1, 1, 2, 0}
	if len(names) > 0 {
		w[7] = 6
	}
	if depth <= 0 {
		w[6] = 0
	}
	switch g.R.Pick(w) {
	case 0:
		return toks(g.pick(Columns))
	case 1:
		return toks(g.pick(Numbers))
	case 2:
		return toks(g.pick(Strings))
	case 3:
		return toks(g.pick([]string{"true", "false", "null"}))
	case 4: // qualified identifier
		return toks(g.pick([]string{"a", "T", "U", "Logs"}), ".", g.pick([]string{"b", "k", "`q;x`"}))
	case 5: // index expression
		return toks("m", "[", g.pick(Strings), "]")
	case 6:
		return g.call(depth-1, names)
	default:
		return toks(g.pick(names))
	}
}

func (g *G) call(depth int, names []string) []Tok {
	var name string
	var arity int
	if g.R.Chance(3, 4) {
		f := KnownFuncs[g.R.Intn(len(KnownFuncs))]
		name, arity = f.Name, f.Arity
	} else {
		name, arity = g.pick(UnknownFuncs), g.R.Intn(3)
	}
	out := toks(name, "(")
	for i := 0; i < arity; i++ {
		if i > 0 {
			out = append(out, t(","))
		}
		out = append(out, g.Expr(depth, names)...)
	}
	return append(out, t(")"))
}

// Expr returns a scalar expression without parentheses.
func (g *G) Expr(depth int, names []string) []Tok {
	var out []Tok
	if g.R.Chance(1, 10) {
		out = append(out, t("-"))
		// unary minus applies to a simple operand only: nested unary / parens are C01/C12 territory
		out = append(out, toks(g.pick([]string{"a", "b", "5", "1.5"}))...)
	} else {
		out = append(out, g.atom(depth, names)...)
	}
	n := 0
	if depth > 0 {
		n = g.R.Pick([]int{5, 4, 2, 1})
	}
	for i := 0; i < n; i++ {
		if g.R.Chance(1, 12) {
			out = append(out, toks("in", "(")...)
			m := g.R.Range(1, 3)
			for j := 0; j < m; j++ {
				if j > 0 {
					out = append(out, t(","))
				}
				out = append(out, g.atom(0, names)...)
			}
			out = append(out, t(")"))
			continue
		}
		out = append(out, t(g.pick(binOps)))
		out = append(out, g.atom(depth-1, names)...)
	}
	return out
}

func (g *G) colName() string {
	return g.pick([]string{"a", "b", "c", "k", "total", "z", "`out col`", "cnt"})
}

// operator returns one tabular operator including its leading pipe.
func (g *G) operator(depth int, names []string, allowJoin bool) []Tok {
	w := []int{8, 4, 4, 4, 3, 3, 2, 2, 1, 1, 0}
	if allowJoin {
		w[10] = 3
	}
	out := toks("|")
	switch g.R.Pick(w) {
	case 0:
		out = append(out, t(g.pick([]string{"where", "where", "filter"})))
		out = append(out, g.Expr(depth, names)...)
	case 1:
		out = append(out, t("project"))
		n := g.R.Range(1, 3)
		for i := 0; i < n; i++ {
			if i > 0 {
				out = append(out, t(","))
			}
			if g.R.Chance(1, 2) {
				out = append(out, t(g.colName()), t("="))
				out = append(out, g.Expr(depth, names)...)
			} else {
				// a bare project column may be a let name: substituted when bound
				if len(names) > 0 && g.R.Chance(1, 3) {
					out = append(out, t(g.pick(names)))
				} else {
					out = append(out, t(g.colName()))
				}
			}
		}
	case 2:
		out = append(out, t("extend"))
		n := g.R.Range(1, 2)
		for i := 0; i < n; i++ {
			if i > 0 {
				out = append(out, t(","))
			}
			if g.R.Chance(3, 4) {
				out = append(out, t(g.colName()), t("="))
				out = append(out, g.Expr(depth, names)...)
			} else {
				out = append(out, tight(g.Expr(0, names))...)
			}
		}
	case 3:
		out = append(out, t("summarize"))
		n := g.R.Range(1, 2)
		for i := 0; i < n; i++ {
			if i > 0 {
				out = append(out, t(","))
			}
			agg := g.pick([]string{"count", "countif", "sum", "min", "max", "avg", "dcount"})
			var e []Tok
			switch agg {
			case "count":
				e = toks("count", "(", ")")
			default:
				e = append(toks(agg, "("), g.Expr(0, names)...)
				e = append(e, t(")"))
			}
			if g.R.Chance(1, 2) {
				out = append(out, t(g.colName()), t("="))
				out = append(out, e...)
			} else {
				out = append(out, tight(e)...)
			}
		}
		if g.R.Chance(2, 3) {
			out = append(out, t("by"))
			m := g.R.Range(1, 2)
			for i := 0; i < m; i++ {
				if i > 0 {
					out = append(out, t(","))
				}
				if g.R.Chance(1, 4) {
					out = append(out, t(g.colName()), t("="))
					out = append(out, g.Expr(0, names)...)
				} else {
					out = append(out, tight(g.atom(0, names))...)
				}
			}
		}
	case 4:
		out = append(out, t(g.pick([]string{"sort", "order"})), t("by"))
		n := g.R.Range(1, 2)
		for i := 0; i < n; i++ {
			if i > 0 {
				out = append(out, t(","))
			}
			out = append(out, g.atom(0, names)...)
			switch g.R.Intn(4) {
			case 0:
				out = append(out, t("asc"))
			case 1:
				out = append(out, t("desc"))
			case 2:
				out = append(out, toks("desc", "nulls", "first")...)
			}
		}
	case 5:
		out = append(out, t(g.pick([]string{"take", "limit"})))
		if len(names) > 0 && g.R.Chance(1, 3) {
			out = append(out, t(g.pick(names)))
		} else {
			out = append(out, t(g.pick([]string{"1", "5", "10", "100"})))
		}
	case 6:
		out = append(out, t("top"), t(g.pick([]string{"1", "3", "10"})), t("by"))
		out = append(out, g.atom(0, names)...)
		if g.R.Chance(1, 2) {
			out = append(out, t(g.pick([]string{"asc", "desc"})))
		}
	case 7:
		out = append(out, t("count"))
	case 8:
		out = append(out, t("as"), t(g.pick([]string{"r1", "sub", "`named q`"})))
	case 9:
		out = append(out, t("render"), t(g.pick([]string{"barchart", "piechart", "timechart"})))
		if g.R.Chance(1, 2) {
			out = append(out, toks("with", "(", "title", "=", g.pick([]string{`"t"`, `'a;b'`, "xcol"}), ")")...)
		}
	case 10:
		out = append(out, t("join"))
		if g.R.Chance(2, 3) {
			out = append(out, toks("kind", "=", g.pick([]string{"inner", "innerunique", "leftouter"}))...)
		}
		out = append(out, t("("), t(g.pick(Tables)))
		if g.R.Chance(1, 2) {
			out = append(out, g.operator(0, names, false)...)
		}
		out = append(out, t(")"), t("on"))
		if g.R.Chance(1, 2) {
			out = append(out, t(g.pick([]string{"k", "a", "State"})))
		} else {
			out = append(out, toks("$left", ".", g.pick([]string{"a", "k"}), "==", "$right", ".", g.pick([]string{"b", "k"}))...)
		}
	}
	return out
}

// Query returns a valid tabular statement. If names is non-empty at least one
// of them is mentioned when mustUse is set.
func (g *G) Query(names []string, mustUse bool) []Tok {
	for attempt := 0; ; attempt++ {
		out := toks(g.pick(Tables))
		n := g.R.Pick([]int{2, 5, 4, 2, 1})
		if g.R.Chance(1, 25) {
			n = g.R.Range(17, 48) // a long pipeline: dozens of sub-queries
		}
		for i := 0; i < n; i++ {
			out = append(out, g.operator(g.R.Intn(3), names, true)...)
		}
		if !mustUse || len(names) == 0 || mentions(out, names) {
			return out
		}
		if attempt >= 3 {
			// force a use
			out = append(out, toks("|", "where", "a", "==", g.pick(names))...)
			return out
		}
	}
}

func mentions(ts []Tok, names []string) bool {
	for _, tk := range ts {
		for _, n := range names {
			if tk.S == n {
				return true
			}
		}
	}
	return false
}

// LetValue returns the right-hand side of a let that is valid given bound names.
func (g *G) LetValue(bound []string) []Tok {
	w := []int{4, 4, 1, 0, 2, 1, 2}
	if len(bound) > 0 {
		w[3] = 4
	}
	switch g.R.Pick(w) {
	case 6:
		// a name from the let/parameter pool that need not be bound by an earlier let: the statement is
		// valid exactly when a parameter (or an earlier let) of that name is in scope
		n := g.pick(LetNames)
		if g.R.Chance(1, 2) {
			return toks(n)
		}
		return toks(n, g.pick([]string{"+", "*", "-"}), g.pick(Numbers))
	case 0:
		return toks(g.pick(Numbers))
	case 1:
		return toks(g.pick(Strings))
	case 2:
		return toks(g.pick([]string{"true", "false", "null"}))
	case 3:
		b := g.pick(bound)
		if g.R.Chance(1, 2) {
			return toks(b)
		}
		return toks(b, g.pick([]string{"+", "*", "-"}), g.pick(Numbers))
	case 4:
		return toks(g.pick(Numbers), g.pick([]string{"+", "*", "-", "/"}), g.pick(Numbers))
	default:
		return toks("now", "(", ")")
	}
}

// Let returns `let name = value`.
func (g *G) Let(name string, bound []string) []Tok {
	return append(toks("let", name, "="), g.LetValue(bound)...)
}

// LetBad returns a let statement that cannot be accepted whatever is bound.
func (g *G) LetBad(name string) []Tok {
	switch g.R.Intn(7) {
	case 0:
		return toks("let", name, "=", "no_such_name")
	case 1:
		return toks("let", "=", "5")
	case 2:
		return toks("let", name, "=", "`quoted`")
	case 3:
		return toks("let", name, "=", "a", ".", "b")
	case 4:
		return toks("let", name, "5")
	case 5:
		return toks("let", name, "=")
	default:
		return toks("let", name, "=", "1", "+", "undefined_col")
	}
}

// QueryBad returns a statement that fails at lex, parse or compile level.
func (g *G) QueryBad() []Tok {
	switch g.R.Intn(22) {
	case 19:
		// a mistyped operator name (anything that ranks known names by closeness meets ties here)
		return toks(g.pick(Tables), "|", g.NearMiss(g.pick(operatorWords)), "a")
	case 20:
		return toks(g.pick(Tables), "|", "join", "kind", "=", g.NearMiss(g.pick([]string{"inner", "innerunique", "leftouter"})), "(", "U", ")", "on", "k")
	case 21:
		return toks(g.pick(Tables), "|", "where", g.NearMiss(g.pick([]string{"tolower", "toupper", "strcat", "isnull", "isnotnull", "countif", "iff", "iif", "not", "now"})), "(", "a", ")", "==", "1", "|", "sort", "by", "a", g.NearMiss(g.pick([]string{"asc", "desc", "nulls"})))
	case 0:
		return toks("!")
	case 1:
		return toks(g.pick(Tables), "|")
	case 2:
		return toks(g.pick(Tables), "|", "where", "not", "(", ")")
	case 3:
		return toks(g.pick(Tables), "|", "where", "$left", ".", "a", "==", "1")
	case 4:
		return toks(g.pick(Tables), "|", "bogus", "a")
	case 5:
		return toks(g.pick(Tables), "|", "join", "kind", "=", "fullouter", "(", "U", ")", "on", "k")
	case 6:
		return toks(g.pick(Tables), "|", "where", "a", "==", `"unterminated`)
	case 7:
		return toks(g.pick(Tables), "|", "take", "1.5")
	case 8:
		return toks(g.pick(Tables), "|", "where", "a", "==", "#")
	case 9:
		return toks(g.pick(Tables), "|", "project", "strcat", "(", ")")
	case 10:
		return toks(g.pick(Tables), "|", "where", "0x")
	case 11:
		return toks(g.pick(Tables), "|", "sort", "a")
	case 12:
		// two slashes that only stay two tokens while a gap separates them
		return toks(g.pick(Tables), "|", "where", "a", "/", "/", "b")
	case 13:
		return toks("let")
	case 14:
		return toks(g.pick(Tables), "|", "where", "a", "==", "1.", "and", "b", "==", "0x")
	case 15:
		return toks(g.pick(Tables), "|", "where", "a", "-", "-", "b", "==", `"ends with escaped quote\"`)
	case 18:
		// two stages that each fail at compile time
		fs := []string{"not", "strcat", "isnull", "tolower", "countif", "iif"}
		return toks(g.pick(Tables), "|", "where", g.pick(fs), "(", ")", "|", "project", "a", "=", g.pick(fs), "(", ")", "|", "count")
	case 16:
		// a lone ! swallows the next character: what follows only LOOKS like a string / comment
		return toks(g.pick(Tables), "|", "where", "a", "==", "!'x", "and", "b", "==", "1")
	default:
		return toks(g.pick(Tables), "|", "where", "a", "==", "!//c", "and", "b")
	}
}

var operatorWords = []string{"count", "where", "filter", "sort", "order", "take", "limit", "top", "project", "extend", "summarize", "join", "as", "render"}

// NearMiss returns word with one or two small edits (a plausible typo): a letter dropped, doubled,
// replaced or swapped with its neighbour, or the word cut short.
func (g *G) NearMiss(word string) string {
	b := []byte(word)
	for n := 1 + g.R.Intn(2); n > 0 && len(b) > 1; n-- {
		i := g.R.Intn(len(b))
		switch g.R.Intn(5) {
		case 0:
			b = append(b[:i:i], b[i+1:]...)
		case 1:
			b = append(b[:i+1:i+1], b[i:]...)
		case 2:
			b[i] = byte('a' + g.R.Intn(26))
		case 3:
			if i+1 < len(b) {
				b[i], b[i+1] = b[i+1], b[i]
			}
		default:
			b = b[:1+g.R.Intn(len(b)-1)]
		}
	}
	if string(b) == word {
		return word + "x"
	}
	return string(b)
}

// Layout controls how gaps are rendered.
type Layout struct {
	R *prng.Rand
	// NewlinePct / CommentPct are percentages for a non-tight gap.
	NewlinePct, CommentPct int
	CRLF                   bool
	// Exotic enables unusual white-space characters in gaps.
	Exotic bool
}

var commentBodies = []string{"", " c", " a;b", " \xff\xfe;", " \x00;", " \x1a", "#!x;", " trailing blanks   ", " let x = 1;", "; ;", " \"quote", " 'q;", " `tick;", " // nested", " héllo;", " T | count;"}

// NL returns the line terminator.
func (l *Layout) NL() string {
	if l.CRLF {
		return "\r\n"
	}
	return "\n"
}

// Gap returns a gap. If must is true the gap is non-empty.
func (l *Layout) Gap(tightGap, must bool) string {
	if tightGap {
		if must || l.R.Chance(1, 2) {
			return " "
		}
		return ""
	}
	r := l.R.Intn(100)
	switch {
	case r < l.CommentPct:
		// comment to end of line, then possibly indentation
		s := l.R.Pick([]int{1, 1})
		pre := []string{" ", ""}[s]
		if must && pre == "" {
			pre = " "
		}
		out := pre + "//" + commentBodies[l.R.Intn(len(commentBodies))] + l.NL()
		if l.R.Chance(1, 3) {
			out += "  "
		}
		return out
	case r < l.CommentPct+l.NewlinePct:
		out := l.NL()
		switch l.R.Intn(6) {
		case 0:
			out += l.NL()
		case 1:
			out += "    "
		case 2:
			out += "\t"
		case 3:
			out = " " + out
		}
		return out
	default:
		switch l.R.Intn(8) {
		case 0:
			return "  "
		case 1:
			return "\t"
		case 2:
			if !must {
				return ""
			}
		case 3:
			if l.Exotic {
				// other white space the lexer skips: form feed, vertical tab, lone CR, NBSP, NEL, line separator
				return []string{"\f", "\v", "\r", "\u00a0", "\u0085", "\u2028", " \r ", "\t\f"}[l.R.Intn(8)]
			}
		}
		return " "
	}
}

func isPunct(s string) bool {
	switch s {
	case "|", ",", "(", ")", "[", "]", ";":
		return true
	}
	return false
}

// needGap reports whether two adjacent tokens must be separated.
func needGap(a, b string) bool {
	if a == "" || b == "" {
		return false
	}
	if isPunct(a) || isPunct(b) {
		return false
	}
	return true
}

// Render renders tokens with gaps from the layout.
func (l *Layout) Render(sb *strings.Builder, ts []Tok, prev string) string {
	for _, tk := range ts {
		if prev != "" {
			sb.WriteString(l.Gap(tk.Tight, needGap(prev, tk.S)))
		}
		sb.WriteString(tk.S)
		prev = tk.S
	}
	return prev
}

// RenderOne renders a token list on its own.
func (l *Layout) RenderOne(ts []Tok) string {
	sb := new(strings.Builder)
	l.Render(sb, ts, "")
	return sb.String()
}
