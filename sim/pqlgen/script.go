package pqlgen

import (
	"strings"

	"github.com/runreveal/pql/zzverif/prng"
)

// Script is a generated CLI input: statements plus the rendering decisions.
type Script struct {
	Stmts          []Stmt
	LastTerminated bool
	Bytes          []byte
	// LongLineAt is the byte offset of the start of a line longer than 64 KiB, or -1.
	LongLineAt int
	Kinds      []string
}

// ScriptConfig is the swarm configuration of one script.
type ScriptConfig struct {
	MaxStmts   int
	NewlinePct int
	CommentPct int
	CRLF       bool
	// AllowD: allow the don't-care shapes D1 (empty statement between semicolons)
	// and D2 (unterminated trailing let).
	AllowD   bool
	LongLine bool
	// Big marks a script with many statements.
	Big bool
	// Exotic: unusual white space in gaps; BOM: a UTF-8 byte-order mark at the very start.
	Exotic bool
	BOM    bool
	// Fat: one statement of several KiB spread over many lines (a long `in (...)` list).
	Fat bool
	// ThresholdLine: one line padded to a length next to a power-of-two buffer size (4 KiB .. 32 KiB);
	// PadTotal: the whole script padded with a trailing comment to exactly such a size.
	ThresholdLine int
	PadTotal      int
}

// DrawScriptConfig draws a swarm configuration.
func DrawScriptConfig(r *prng.Rand) ScriptConfig {
	c := ScriptConfig{
		MaxStmts:   r.Pick([]int{0, 3, 4, 4, 3, 2, 2, 1, 1}), // index = count
		NewlinePct: []int{0, 10, 25, 50, 80}[r.Intn(5)],
		CommentPct: []int{0, 0, 5, 15, 30}[r.Intn(5)],
		CRLF:       r.Chance(1, 6),
		AllowD:     r.Chance(1, 5),
		LongLine:   r.Chance(1, 60),
	}
	if r.Chance(1, 40) {
		c.MaxStmts = 0
	}
	c.Fat = r.Chance(1, 60)
	if r.Chance(1, 30) {
		c.ThresholdLine = []int{4096, 8192, 16384, 32768}[r.Pick([]int{5, 3, 1, 1})] + r.Range(-2, 2)
	}
	if r.Chance(1, 30) {
		c.PadTotal = []int{4096, 8192, 16384}[r.Pick([]int{4, 2, 1})] + r.Range(-1, 1)
	}
	c.Exotic = r.Chance(1, 8)
	c.BOM = r.Chance(1, 50)
	if r.Chance(1, 25) {
		// a big script: input and output cross the buffer sizes a tool is likely to use (4 KiB, 64 KiB)
		c.MaxStmts = r.Range(20, 90)
		c.Big = true
	}
	return c
}

// GenScript generates one script from r under cfg.
func GenScript(r *prng.Rand, cfg ScriptConfig) *Script {
	g := &G{R: r}
	sc := &Script{LongLineAt: -1}
	var bound []string // names for which an acceptable let was emitted so far
	n := cfg.MaxStmts
	for i := 0; i < n; i++ {
		var st Stmt
		w := []int{3, 6, 5, 2, 2, 0, 0}
		if cfg.AllowD {
			// a terminated empty or comment-only statement is the D1 shape
			w[5], w[6] = 2, 1
		}
		if i == 0 {
			w[2] = 9 // scripts that start with a let reach the prelude states sooner
		}
		switch StmtKind(r.Pick(w)) {
		case KQuery:
			st = Stmt{Kind: KQuery, Toks: g.Query(nil, false)}
		case KQueryUsesName:
			// names from the whole pool: bound, never bound, bound later, failed
			st = Stmt{Kind: KQueryUsesName, Toks: g.Query(LetNames, true)}
		case KLet:
			name := g.pick(LetNames)
			st = Stmt{Kind: KLet, Toks: g.Let(name, bound)}
			if !contains(bound, name) {
				bound = append(bound, name)
			}
		case KLetBad:
			name := g.pick(LetNames)
			st = Stmt{Kind: KLetBad, Toks: g.LetBad(name)}
		case KQueryBad:
			st = Stmt{Kind: KQueryBad, Toks: g.QueryBad()}
		case KEmpty:
			st = Stmt{Kind: KEmpty}
		case KCommentOnly:
			st = Stmt{Kind: KCommentOnly, Comment: "//" + commentBodies[r.Intn(len(commentBodies))]}
		}
		sc.Stmts = append(sc.Stmts, st)
	}
	if cfg.Fat && len(sc.Stmts) > 0 {
		// a statement of several KiB, no line of which is long
		ts := toks(g.pick(Tables), "|", "where", g.pick(Columns), "in", "(")
		n := r.Range(150, 700)
		for i := 0; i < n; i++ {
			if i > 0 {
				ts = append(ts, t(","))
			}
			ts = append(ts, t(Numbers[r.Intn(len(Numbers))]))
		}
		ts = append(ts, t(")"))
		sc.Stmts[r.Intn(len(sc.Stmts))] = Stmt{Kind: KQuery, Toks: ts}
	}
	// Make the last statement a query more often: the trailing path is a separate code path.
	if len(sc.Stmts) > 0 && r.Chance(1, 2) {
		last := &sc.Stmts[len(sc.Stmts)-1]
		if last.Kind != KQuery && last.Kind != KQueryUsesName {
			*last = Stmt{Kind: KQueryUsesName, Toks: g.Query(LetNames, true)}
		}
	}
	sc.LastTerminated = r.Chance(1, 2)
	if len(sc.Stmts) > 0 && !sc.LastTerminated && !cfg.AllowD {
		// avoid D2 (unterminated trailing let) and a trailing unterminated empty/comment
		// (harmless, but keep kinds meaningful) unless don't-care shapes are enabled
		last := &sc.Stmts[len(sc.Stmts)-1]
		if last.Kind == KLet || last.Kind == KLetBad {
			sc.LastTerminated = true
		}
	}
	render(sc, r, cfg)
	for _, s := range sc.Stmts {
		sc.Kinds = append(sc.Kinds, s.Kind.String())
	}
	return sc
}

func contains(ss []string, s string) bool {
	for _, x := range ss {
		if x == s {
			return true
		}
	}
	return false
}

func render(sc *Script, r *prng.Rand, cfg ScriptConfig) {
	l := &Layout{R: r, NewlinePct: cfg.NewlinePct, CommentPct: cfg.CommentPct, CRLF: cfg.CRLF, Exotic: cfg.Exotic}
	sb := new(strings.Builder)
	if cfg.BOM {
		sb.WriteString("\ufeff")
	}
	// leading blank/comment lines
	if r.Chance(1, 6) {
		sb.WriteString(l.Gap(false, false))
	}
	longIdx := -1
	if cfg.LongLine && len(sc.Stmts) > 0 {
		longIdx = r.Intn(len(sc.Stmts))
	}
	thrIdx := -1
	if cfg.ThresholdLine > 0 && len(sc.Stmts) > 0 && longIdx < 0 {
		thrIdx = r.Intn(len(sc.Stmts))
	}
	for i, st := range sc.Stmts {
		switch st.Kind {
		case KEmpty:
			// nothing
		case KCommentOnly:
			sb.WriteString(st.Comment)
			sb.WriteString(l.NL())
		default:
			if i == thrIdx {
				// a line of exactly cfg.ThresholdLine bytes (without its terminator): statement on its own line
				if sb.Len() > 0 && !strings.HasSuffix(sb.String(), "\n") {
					sb.WriteString(l.NL())
				}
				head := "T | where a == \""
				pad := cfg.ThresholdLine - len(head) - len("\";")
				sb.WriteString(head + strings.Repeat("y", pad) + "\";" + l.NL())
				continue
			} else if i == longIdx {
				// a line over 64 KiB: a long string literal on the statement's own line
				if sb.Len() > 0 && !strings.HasSuffix(sb.String(), "\n") {
					sb.WriteString(l.NL())
				}
				sc.LongLineAt = sb.Len()
				sb.WriteString("T | where a == \"")
				sb.WriteString(strings.Repeat("x", 66000+r.Intn(3000)))
				sb.WriteString("\"")
			} else {
				l.Render(sb, st.Toks, "")
			}
		}
		last := i == len(sc.Stmts)-1
		if !last || sc.LastTerminated {
			if st.Kind != KEmpty && st.Kind != KCommentOnly {
				sb.WriteString(l.Gap(false, false))
			}
			sb.WriteString(";")
			// gap after a semicolon: often a newline, sometimes nothing (next statement on the same line)
			switch r.Intn(5) {
			case 0:
			case 1, 2:
				sb.WriteString(l.NL())
			default:
				sb.WriteString(l.Gap(false, false))
			}
		}
	}
	// trailing material
	switch r.Intn(6) {
	case 0:
		sb.WriteString(l.NL())
	case 1:
		sb.WriteString(" // trailing;" + l.NL())
	case 2:
		sb.WriteString(l.NL() + l.NL() + "  ")
	case 3:
		sb.WriteString(" // no newline at end;")
	case 4:
		if !strings.HasSuffix(sb.String(), "\n") {
			sb.WriteString(l.NL())
		}
	}
	if cfg.PadTotal > 0 && sb.Len()+4 < cfg.PadTotal {
		if !strings.HasSuffix(sb.String(), "\n") {
			sb.WriteString("\n")
		}
		sb.WriteString("//" + strings.Repeat("-", cfg.PadTotal-sb.Len()-3) + "\n")
	}
	sc.Bytes = []byte(sb.String())
}
