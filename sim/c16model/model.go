// Package c16model is the executable reference model for property C16: what
// the pql command must print for a script, computed statement by statement
// with pql.Compile ("a model that calls pql.Compile per statement").
package c16model

import (
	"strings"

	"github.com/runreveal/pql"
	"github.com/runreveal/pql/parser"
)

// PieceKind classifies one statement of the script.
type PieceKind int

const (
	PEmpty PieceKind = iota // no token
	PLet
	PQuery
)

// Piece is one statement with the model's verdict.
type Piece struct {
	Kind       PieceKind
	Text       string
	Terminated bool   // a semicolon token follows
	OK         bool   // accepted (let) / compiled (query)
	SQL        string // for compiled queries
	Out        string // bytes this piece contributes to stdout
	Err        string
	UsesPrelude bool  // compiled with a non-empty prelude in force
}

// Result is the model's verdict for a whole script.
type Result struct {
	Pieces []Piece
	Stdout string
	// Failures is the number of statements that certainly failed.
	Failures int
	// D1 counts empty statements terminated by a semicolon, D2 is set for an
	// unterminated trailing let that would be accepted: the property leaves open
	// whether these are reported as failures (DESIGN.md §5.4).
	D1 int
	D2 bool
}

// NormalizeLines applies what reading "lines" means: every line is terminated
// by \n, and one \r directly before the line end (or before end of input) does
// not belong to the line. No PQL token spans a line end, so this cannot change
// any token.
func NormalizeLines(in []byte) string {
	s := string(in)
	if s == "" {
		return s
	}
	lines := strings.Split(s, "\n")
	for i, l := range lines {
		if strings.HasSuffix(l, "\r") {
			lines[i] = l[:len(l)-1]
		}
	}
	return strings.Join(lines, "\n")
}

// Run evaluates the model on the script bytes.
func Run(in []byte) *Result {
	src := NormalizeLines(in)
	// A final line without terminator is still a line.
	if src != "" && !strings.HasSuffix(src, "\n") {
		src += "\n"
	}
	res := &Result{}
	toks := parser.Scan(src)
	start := 0
	var cuts [][2]int
	for _, tk := range toks {
		if tk.Kind == parser.TokenSemi {
			cuts = append(cuts, [2]int{start, tk.Span.Start})
			start = tk.Span.End
		}
	}
	var prelude []string
	eval := func(text string, terminated bool) {
		p := Piece{Text: text, Terminated: terminated}
		pt := parser.Scan(text)
		pre := ""
		for _, l := range prelude {
			pre += l + ";\n"
		}
		switch {
		case len(pt) == 0:
			p.Kind = PEmpty
			p.OK = true
			if terminated {
				res.D1++
			}
		case pt[0].Kind == parser.TokenIdentifier && pt[0].Value == "let":
			p.Kind = PLet
			p.UsesPrelude = pre != ""
			if _, err := pql.Compile(pre + text + ";\nX"); err != nil {
				p.Err = err.Error()
				res.Failures++
			} else {
				p.OK = true
				if terminated {
					prelude = append(prelude, text)
				} else {
					res.D2 = true
				}
			}
		default:
			p.Kind = PQuery
			p.UsesPrelude = pre != ""
			sql, err := pql.Compile(pre + text)
			if err != nil {
				p.Err = err.Error()
				res.Failures++
			} else {
				p.OK = true
				p.SQL = sql
				p.Out = sql + "\n\n"
			}
		}
		res.Stdout += p.Out
		res.Pieces = append(res.Pieces, p)
	}
	for _, c := range cuts {
		eval(src[c[0]:c[1]], true)
	}
	eval(src[start:], false)
	return res
}

// LongLines returns the start offsets of lines longer than limit bytes.
func LongLines(in []byte, limit int) []int {
	var out []int
	start := 0
	for i := 0; i <= len(in); i++ {
		if i == len(in) || in[i] == '\n' {
			if i-start > limit {
				out = append(out, start)
			}
			start = i + 1
		}
	}
	return out
}
